//! Engine `obs` (C01, C02 sequential, C03 sequential, C16, C19): Observable / SharedObservable / Subscriber of the
//! `eyeball` crate, default and async-lock flavour, at operation granularity, with the specification-level oracle.
use crate::common::*;
use crate::eng_vec::{flag_waker, Flag};
use eyeball::{AsyncLock, Observable, ObservableWriteGuard, SharedObservable, Subscriber, WeakObservable};
use futures_core::Stream;
use std::future::Future;
use std::hash::{Hash, Hasher};
use std::pin::Pin;
use std::sync::atomic::Ordering;
use std::sync::Arc;
use std::task::{Context, Poll, Waker};

/// element type: `PartialEq` compares `v % 8`, `Hash` feeds `v / 8`, `Default` is 0
#[derive(Clone, Debug, Default)]
pub struct T(pub u64);
impl PartialEq for T { fn eq(&self, o: &T) -> bool { self.0 % 8 == o.0 % 8 } }
/// hash class `v / 8`, fed to the hasher as that many zero bytes (classes below 16) — input whose only information is its
/// LENGTH, which a careless hasher (zero-padding its last chunk, starting from a zero state) cannot tell apart
impl Hash for T {
    fn hash<H: Hasher>(&self, h: &mut H) {
        let c = self.0 / 8;
        if c < 16 { h.write(&[0u8; 16][..c as usize]) } else { h.write_u64(c) }
    }
}

/// hand-rolled executor: poll the future once; `None` = it did not complete (it would have to wait)
fn now<F: Future>(f: F) -> Option<F::Output> {
    let (_fl, w) = flag_waker();
    let mut cx = Context::from_waker(&w);
    let mut f = std::pin::pin!(f);
    match f.as_mut().poll(&mut cx) { Poll::Ready(v) => Some(v), Poll::Pending => None }
}

enum Own { U(Observable<T>), S(SharedObservable<T>), UA(Observable<T, AsyncLock>), SA(SharedObservable<T, AsyncLock>) }
enum SubK { S(Subscriber<T>), A(Subscriber<T, AsyncLock>) }
enum WeakK { S(WeakObservable<T>), A(WeakObservable<T, AsyncLock>) }

struct SubH { k: SubK, flag: Arc<Flag>, waker: Waker, fresh: bool, parked: bool,
              /// its last poll used the shared task waker, answered Pending, and the task was not woken since
              tparked: bool }

#[derive(Clone, Debug)]
pub enum WOp { Set(u64), Sne(u64), Shne(u64), Take, Upd(usize), UpdIf(usize, bool) }
impl WOp {
    fn text(&self) -> String {
        match self { WOp::Set(v) => format!("set {v}"), WOp::Sne(v) => format!("sne {v}"), WOp::Shne(v) => format!("shne {v}"), WOp::Take => "take".into(),
            WOp::Upd(f) => format!("upd {f}"), WOp::UpdIf(f, n) => format!("updif {f} {}", *n as u8) }
    }
}

pub struct OW {
    asyncf: bool,
    unique: Option<Own>,
    clones: Vec<Option<Own>>,
    subs: Vec<Option<SubH>>,
    weaks: Vec<Option<WeakK>>,
    // specification-level reference
    cur: u64,
    open: bool,
    kf: bool,
    /// one waker shared by several subscribers (a task polling them all, as `join` / `select` / a merged stream do)
    task_flag: Arc<Flag>,
    task_waker: Waker,
}

fn hash_of(v: u64) -> u64 { v / 8 }

impl OW {
    pub fn new(sink: &mut Sink, unique: bool, asyncf: bool, v: u64) -> OW {
        sink.line(&format!("onew {} {} {v}", if unique { "unique" } else { "shared" }, if asyncf { "async" } else { "sync" }), "ok");
        let (task_flag, task_waker) = flag_waker();
        let mut w = OW { asyncf, unique: None, clones: vec![], subs: vec![], weaks: vec![], cur: v, open: true, kf: false, task_flag, task_waker };
        match (unique, asyncf) {
            // initial value 0: through the `Default` impls (`T::default()` is `T(0)`)
            (true, false) if v == 0 => w.unique = Some(Own::U(Observable::default())),
            (true, true) if v == 0 => w.unique = Some(Own::UA(Observable::default())),
            (false, false) if v == 0 => w.clones.push(Some(Own::S(SharedObservable::default()))),
            (false, true) if v == 0 => w.clones.push(Some(Own::SA(SharedObservable::default()))),
            (true, false) => w.unique = Some(Own::U(Observable::new(T(v)))),
            (true, true) => w.unique = Some(Own::UA(Observable::new_async(T(v)))),
            (false, false) => w.clones.push(Some(Own::S(SharedObservable::new(T(v))))),
            (false, true) => w.clones.push(Some(Own::SA(SharedObservable::new_async(T(v))))),
        }
        w
    }
    fn owner(&mut self, h: usize) -> &mut Own {
        if self.unique.is_some() { self.unique.as_mut().unwrap() } else { self.clones[h].as_mut().unwrap() }
    }
    pub fn live_owners(&self) -> Vec<usize> {
        if self.unique.is_some() { vec![0] } else { self.clones.iter().enumerate().filter(|(_, c)| c.is_some()).map(|(i, _)| i).collect() }
    }
    pub fn live_subs(&self) -> Vec<usize> { self.subs.iter().enumerate().filter(|(_, s)| s.is_some()).map(|(i, _)| i).collect() }
    pub fn live_weaks(&self) -> Vec<usize> { self.weaks.iter().enumerate().filter(|(_, s)| s.is_some()).map(|(i, _)| i).collect() }
    pub fn is_unique(&self) -> bool { self.unique.is_some() }

    fn woke(&mut self) -> String {
        let mut ids = vec![];
        for (i, s) in self.subs.iter_mut().enumerate() {
            if let Some(s) = s { if s.flag.0.swap(false, Ordering::SeqCst) { ids.push(i as u64); s.parked = false; } }
        }
        if self.task_flag.0.swap(false, Ordering::SeqCst) { ids.push(900); for s in self.subs.iter_mut().flatten() { s.tparked = false; } }
        format!(" woke={}", fmt_list(&ids))
    }
    /// a notifying update / the close happened: every parked subscriber must have been woken (C02)
    fn check_all_woken(&self, sink: &mut Sink, why: &str) {
        for (i, s) in self.subs.iter().enumerate() {
            if let Some(s) = s { if s.parked && !s.flag.0.load(Ordering::SeqCst) {
                sink.oracle_fail(&self.p("C02,C01"), &format!("subscriber {i} was Pending and is not woken by {why}"));
            } }
            if let Some(s) = s { if s.tparked && !self.task_flag.0.load(Ordering::SeqCst) {
                sink.oracle_fail(&self.p("C02,C01"), &format!("subscriber {i} was Pending when polled by the task that polls several subscribers with one waker, and the task is not woken by {why}"));
            } }
        }
    }
    fn mark_fresh(&mut self) { for s in self.subs.iter_mut().flatten() { s.fresh = true; } }
    /// property tags of an oracle failure: the async flavour also answers to C16; a SharedObservable that deviates from the
    /// sequential specification in a one-thread history has no linearization either (C04)
    fn p(&self, base: &str) -> String {
        let mut t = base.to_string();
        if self.asyncf { t += ",C16"; }
        if !self.is_unique() && base.contains("C01") && !self.asyncf { t += ",C04"; }
        t
    }

    /// writer call, directly (`guard = false`) or through a write guard
    pub fn write(&mut self, sink: &mut Sink, h: usize, op: &WOp, guard: bool) {
        let f = |id: usize| crate::eng_diff::map_fn(id);
        let before = self.cur;
        // ---- the real call
        let mut seen_through_guard: Option<u64> = None;
        let res: Option<String> = {
            let o = self.owner(h);
            macro_rules! via_guard { ($g:expr) => {{
                let mut g = $g;
                seen_through_guard = Some((*g).0);
                let r = match op {
                    WOp::Set(v) => ObservableWriteGuard::set(&mut g, T(*v)).0.to_string(),
                    WOp::Sne(v) => fmt_opt(ObservableWriteGuard::set_if_not_eq(&mut g, T(*v)).map(|t| t.0)),
                    WOp::Shne(v) => fmt_opt(ObservableWriteGuard::set_if_hash_not_eq(&mut g, T(*v)).map(|t| t.0)),
                    WOp::Take => ObservableWriteGuard::take(&mut g).0.to_string(),
                    WOp::Upd(id) => { let g2 = f(*id); ObservableWriteGuard::update(&mut g, |t| t.0 = g2(t.0)); "-".into() }
                    WOp::UpdIf(id, n) => { let g2 = f(*id); let n = *n; ObservableWriteGuard::update_if(&mut g, |t| { t.0 = g2(t.0); n }); "-".into() }
                };
                drop(g);
                Some(r)
            }}; }
            match (o, guard) {
                (Own::U(ob), _) => Some(match op {
                    WOp::Set(v) => Observable::set(ob, T(*v)).0.to_string(),
                    WOp::Sne(v) => fmt_opt(Observable::set_if_not_eq(ob, T(*v)).map(|t| t.0)),
                    WOp::Shne(v) => fmt_opt(Observable::set_if_hash_not_eq(ob, T(*v)).map(|t| t.0)),
                    WOp::Take => Observable::take(ob).0.to_string(),
                    WOp::Upd(id) => { let g2 = f(*id); Observable::update(ob, |t| t.0 = g2(t.0)); "-".into() }
                    WOp::UpdIf(id, n) => { let g2 = f(*id); let n = *n; Observable::update_if(ob, |t| { t.0 = g2(t.0); n }); "-".into() }
                }),
                (Own::UA(ob), _) => match op {
                    WOp::Set(v) => now(Observable::set_async(ob, T(*v))).map(|t| t.0.to_string()),
                    WOp::Sne(v) => now(Observable::set_if_not_eq_async(ob, T(*v))).map(|o| fmt_opt(o.map(|t| t.0))),
                    WOp::Shne(v) => now(Observable::set_if_hash_not_eq_async(ob, T(*v))).map(|o| fmt_opt(o.map(|t| t.0))),
                    WOp::Take => now(Observable::take_async(ob)).map(|t| t.0.to_string()),
                    WOp::Upd(id) => { let g2 = f(*id); now(Observable::update_async(ob, |t| t.0 = g2(t.0))).map(|_| "-".to_string()) }
                    WOp::UpdIf(id, n) => { let g2 = f(*id); let n = *n; now(Observable::update_if_async(ob, |t| { t.0 = g2(t.0); n })).map(|_| "-".to_string()) }
                },
                (Own::S(ob), false) => Some(match op {
                    WOp::Set(v) => ob.set(T(*v)).0.to_string(),
                    WOp::Sne(v) => fmt_opt(ob.set_if_not_eq(T(*v)).map(|t| t.0)),
                    WOp::Shne(v) => fmt_opt(ob.set_if_hash_not_eq(T(*v)).map(|t| t.0)),
                    WOp::Take => ob.take().0.to_string(),
                    WOp::Upd(id) => { let g2 = f(*id); ob.update(|t| t.0 = g2(t.0)); "-".into() }
                    WOp::UpdIf(id, n) => { let g2 = f(*id); let n = *n; ob.update_if(|t| { t.0 = g2(t.0); n }); "-".into() }
                }),
                (Own::S(ob), true) => if before % 2 == 0 { via_guard!(ob.write()) } else { via_guard!(ob.try_write().expect("try_write with no guard alive")) },
                (Own::SA(ob), false) => match op {
                    WOp::Set(v) => now(ob.set(T(*v))).map(|t| t.0.to_string()),
                    WOp::Sne(v) => now(ob.set_if_not_eq(T(*v))).map(|o| fmt_opt(o.map(|t| t.0))),
                    WOp::Shne(v) => now(ob.set_if_hash_not_eq(T(*v))).map(|o| fmt_opt(o.map(|t| t.0))),
                    WOp::Take => now(ob.take()).map(|t| t.0.to_string()),
                    WOp::Upd(id) => { let g2 = f(*id); now(ob.update(|t| t.0 = g2(t.0))).map(|_| "-".to_string()) }
                    WOp::UpdIf(id, n) => { let g2 = f(*id); let n = *n; now(ob.update_if(|t| { t.0 = g2(t.0); n })).map(|_| "-".to_string()) }
                },
                (Own::SA(ob), true) => match now(ob.write()) { Some(g) => via_guard!(g), None => None },
            }
        };
        // ---- the specification
        let (expect, notify): (String, bool) = match op {
            WOp::Set(v) => { self.cur = *v; (before.to_string(), true) }
            WOp::Take => { self.cur = 0; (before.to_string(), true) }
            WOp::Sne(v) => if before % 8 != *v % 8 { self.cur = *v; (fmt_opt(Some(before)), true) } else { ("none".into(), false) },
            WOp::Shne(v) => if hash_of(before) != hash_of(*v) { self.cur = *v; (fmt_opt(Some(before)), true) } else { ("none".into(), false) },
            WOp::Upd(id) => { self.cur = f(*id)(before); ("-".into(), true) }
            WOp::UpdIf(id, n) => { self.cur = f(*id)(before); ("-".into(), *n) }
        };
        let shown = res.clone().unwrap_or_else(|| "blocked".into());
        if shown != expect {
            sink.oracle_fail(&self.p("C01"), &format!("{}: returned {shown}, the specification says {expect}", op.text()));
        }
        if let Some(seen) = seen_through_guard { if seen != before {
            sink.oracle_fail(&self.p("C01"), &format!("the write guard dereferences to {seen}, the latest value is {before}"));
        } }
        if notify { self.check_all_woken(sink, "a notifying update"); self.mark_fresh(); }
        let w = self.woke();
        sink.stat(&format!("w.{}", op.text().split(' ').next().unwrap()));
        sink.line(&format!("{} {h} {}", if guard { "g" } else { "w" }, op.text()), &format!("{shown}{w}"));
    }

    /// several writes through ONE write guard (sync and async shared observables): each notifying write wakes the pending
    /// subscribers, whatever is written afterwards through the same guard
    pub fn write_guard_seq(&mut self, sink: &mut Sink, h: usize, ops: &[WOp]) {
        let f = |id: usize| crate::eng_diff::map_fn(id);
        macro_rules! run { ($g:expr) => {{
            let mut g = $g;
            for op in ops {
                let before = self.cur;
                let shown = match op {
                    WOp::Set(v) => ObservableWriteGuard::set(&mut g, T(*v)).0.to_string(),
                    WOp::Sne(v) => fmt_opt(ObservableWriteGuard::set_if_not_eq(&mut g, T(*v)).map(|t| t.0)),
                    WOp::Shne(v) => fmt_opt(ObservableWriteGuard::set_if_hash_not_eq(&mut g, T(*v)).map(|t| t.0)),
                    WOp::Take => ObservableWriteGuard::take(&mut g).0.to_string(),
                    WOp::Upd(id) => { let g2 = f(*id); ObservableWriteGuard::update(&mut g, |t| t.0 = g2(t.0)); "-".into() }
                    WOp::UpdIf(id, n) => { let g2 = f(*id); let n = *n; ObservableWriteGuard::update_if(&mut g, |t| { t.0 = g2(t.0); n }); "-".into() }
                };
                let (expect, notify): (String, bool) = match op {
                    WOp::Set(v) => { self.cur = *v; (before.to_string(), true) }
                    WOp::Take => { self.cur = 0; (before.to_string(), true) }
                    WOp::Sne(v) => if before % 8 != *v % 8 { self.cur = *v; (fmt_opt(Some(before)), true) } else { ("none".into(), false) },
                    WOp::Shne(v) => if hash_of(before) != hash_of(*v) { self.cur = *v; (fmt_opt(Some(before)), true) } else { ("none".into(), false) },
                    WOp::Upd(id) => { self.cur = f(*id)(before); ("-".into(), true) }
                    WOp::UpdIf(id, n) => { self.cur = f(*id)(before); ("-".into(), *n) }
                };
                if shown != expect { sink.oracle_fail(&self.p("C01"), &format!("{} through a write guard: returned {shown}, the specification says {expect}", op.text())); }
                if notify { self.check_all_woken(sink, "a notifying update through a write guard (before the guard is dropped)"); self.mark_fresh(); }
                let w = self.woke();
                sink.stat("w.guardseq");
                sink.line(&format!("g {h} {}", op.text()), &format!("{shown}{w}"));
            }
            drop(g);
        }}; }
        // the guard borrows the owner: take it out of `self` for the duration
        let own = if self.unique.is_some() { return } else { self.clones[h].take().unwrap() };
        match &own {
            Own::S(ob) => {
                { let _g = ob.write();
                  if ob.try_read().is_ok() || ob.try_write().is_ok() { sink.oracle_fail("C04", "try_read / try_write succeeded while a write guard is alive"); } }
                run!(ob.write())
            }
            Own::SA(ob) => { if let Some(g) = now(ob.write()) { run!(g) } }
            _ => {}
        }
        self.clones[h] = Some(own);
        // nothing further happens at the drop of the guard
        let w = self.woke();
        if w != " woke=[]" { sink.oracle_fail(&self.p("C02"), &format!("dropping the write guard woke{w} although every notifying write had already woken them")); }
    }

    pub fn subscribe(&mut self, sink: &mut Sink, h: usize, reset: bool) -> usize {
        let k = match self.owner(h) {
            Own::U(o) => SubK::S(if reset { Observable::subscribe_reset(o) } else { Observable::subscribe(o) }),
            Own::UA(o) => SubK::A(if reset { Observable::subscribe_reset_async(o) } else { Observable::subscribe_async(o) }),
            Own::S(o) => SubK::S(if reset { o.subscribe_reset() } else { o.subscribe() }),
            Own::SA(o) => SubK::A(if reset { o.subscribe_reset() } else { now(o.subscribe()).expect("subscribe blocked") }),
        };
        let (flag, waker) = flag_waker();
        self.subs.push(Some(SubH { k, flag, waker, fresh: reset, parked: false, tparked: false }));
        let id = self.subs.len() - 1;
        sink.stat("sub");
        sink.line(&format!("{} {h}", if reset { "osubr" } else { "osub" }), &id.to_string());
        id
    }

    pub fn poll(&mut self, sink: &mut Sink, i: usize) { self.poll_with(sink, i, false) }
    /// `task`: poll with the waker shared by all subscribers polled this way
    pub fn poll_with(&mut self, sink: &mut Sink, i: usize, task: bool) { self.poll_via(sink, i, task, 0) }
    /// `via`: 0 = `Stream::poll_next`, 1 = the `next()` future polled once, 2 = the `next_ref()` future polled once
    /// (a future that is not ready is dropped; its waker registration stays, as for a stream poll)
    pub fn poll_via(&mut self, sink: &mut Sink, i: usize, task: bool, via: u8) {
        let (cur, open) = (self.cur, self.open);
        let tw = self.task_waker.clone();
        let tflag = self.task_flag.0.load(Ordering::SeqCst);
        let s = self.subs[i].as_mut().unwrap();
        let mut cx = Context::from_waker(if task { &tw } else { &s.waker });
        let r = match (&mut s.k, via) {
            (SubK::S(sb), 0) => Pin::new(sb).poll_next(&mut cx),
            (SubK::A(sb), 0) => Pin::new(sb).poll_next(&mut cx),
            (SubK::S(sb), 1) => { let mut f = std::pin::pin!(sb.next()); f.as_mut().poll(&mut cx) }
            (SubK::A(sb), 1) => { let mut f = std::pin::pin!(sb.next()); f.as_mut().poll(&mut cx) }
            (SubK::S(sb), _) => { let mut f = std::pin::pin!(sb.next_ref()); f.as_mut().poll(&mut cx).map(|o| o.map(|g| g.clone())) }
            (SubK::A(sb), _) => { let mut f = std::pin::pin!(sb.next_ref()); f.as_mut().poll(&mut cx).map(|o| o.map(|g| g.clone())) }
        };
        let shown = match &r { Poll::Ready(Some(t)) => format!("Ready({})", t.0), Poll::Ready(None) => "End".into(), Poll::Pending => "Pending".into() };
        let expect = if !open { "End".to_string() } else if s.fresh { format!("Ready({cur})") } else { "Pending".into() };
        let was_parked = (s.parked && !s.flag.0.load(Ordering::SeqCst)) || (s.tparked && !tflag);
        match r {
            Poll::Pending if task => { s.tparked = true; }
            Poll::Pending => { s.parked = true; s.flag.0.store(false, Ordering::SeqCst); }
            _ => { s.parked = false; s.tparked = false; s.fresh = false; }
        }
        let p = if self.asyncf { "C16," } else { "" };
        if shown != expect {
            // Pending on an ended observable: a waker was registered that nobody will ever wake (C02)
            let prop = if expect == "End" && shown == "Pending" { format!("{p}C03,C01,C02") } else if expect == "End" || shown == "End" { format!("{p}C03,C01") } else { format!("{p}C01") };
            sink.oracle_fail(&prop, &format!("poll of subscriber {i} answered {shown}, the specification says {expect}"));
        }
        if was_parked && shown != "Pending" {
            sink.oracle_fail(&format!("{p}C02,C01"), &format!("subscriber {i} was Pending, was not woken, and a further poll answered {shown}"));
        }
        sink.stat(if task { "pollt" } else if via == 1 { "nextfut" } else if via == 2 { "nextreffut" } else { "poll" });
        sink.line(&format!("{} {i}", if task { "opollt" } else if via == 1 { "onextf" } else if via == 2 { "onextrf" } else { "opoll" }), &shown);
    }

    pub fn next_now(&mut self, sink: &mut Sink, i: usize) {
        let cur = self.cur;
        let s = self.subs[i].as_mut().unwrap();
        // `next_now` and `next_ref_now` alternate
        let v = if cur % 2 == 0 {
            match &mut s.k { SubK::S(sb) => Some(sb.next_now().0), SubK::A(sb) => now(sb.next_now()).map(|t| t.0) }
        } else {
            match &mut s.k { SubK::S(sb) => Some(sb.next_ref_now().0), SubK::A(sb) => now(sb.next_ref_now()).map(|g| g.0) }
        };
        s.fresh = false;
        let shown = v.map(|v| v.to_string()).unwrap_or_else(|| "blocked".into());
        if shown != cur.to_string() { sink.oracle_fail(&self.p("C01"), &format!("next_now of subscriber {i} returned {shown}, the latest value is {cur}")); }
        sink.stat("nextnow");
        sink.line(&format!("onext {i}"), &shown);
    }
    pub fn get(&mut self, sink: &mut Sink, i: usize) {
        let cur = self.cur;
        let s = self.subs[i].as_ref().unwrap();
        let v = if cur % 2 == 0 {
            match &s.k { SubK::S(sb) => Some(sb.get().0), SubK::A(sb) => now(sb.get()).map(|t| t.0) }
        } else {
            match &s.k { SubK::S(sb) => Some(sb.read().0), SubK::A(sb) => now(sb.read()).map(|g| g.0) }
        };
        let shown = v.map(|v| v.to_string()).unwrap_or_else(|| "blocked".into());
        if shown != cur.to_string() { sink.oracle_fail(&self.p("C01,C03"), &format!("get of subscriber {i} returned {shown}, the latest value is {cur}")); }
        sink.stat("get");
        sink.line(&format!("oget {i}"), &shown);
    }
    pub fn reset(&mut self, sink: &mut Sink, i: usize) {
        let s = self.subs[i].as_mut().unwrap();
        match &mut s.k { SubK::S(sb) => sb.reset(), SubK::A(sb) => sb.reset() }
        s.fresh = true;
        s.parked = false; // the subscriber made itself ready: no wake is owed
        s.tparked = false;
        sink.stat("reset");
        sink.line(&format!("oreset {i}"), "ok");
    }
    pub fn sub_clone(&mut self, sink: &mut Sink, i: usize, reset: bool) {
        let s = self.subs[i].as_ref().unwrap();
        let k = match &s.k {
            SubK::S(sb) => SubK::S(if reset { sb.clone_reset() } else { sb.clone() }),
            SubK::A(sb) => SubK::A(if reset { sb.clone_reset() } else { sb.clone() }),
        };
        let fresh = if reset { true } else { s.fresh };
        let (flag, waker) = flag_waker();
        self.subs.push(Some(SubH { k, flag, waker, fresh, parked: false, tparked: false }));
        sink.stat("sclone");
        sink.line(&format!("{} {i}", if reset { "ocloner" } else { "oclone" }), &(self.subs.len() - 1).to_string());
    }
    /// `subs[i].clone_from(&subs[j])`: by `Clone`'s contract the same as `subs[i] = subs[j].clone()` — the old target is
    /// dropped, the target becomes a copy of the source (observed state included). Reported as those two steps; the
    /// target lives on under a new id.
    pub fn sub_clone_from(&mut self, sink: &mut Sink, i: usize, j: usize) {
        let mut t = self.subs[i].take().unwrap();
        let src = self.subs[j].as_ref().unwrap();
        match (&mut t.k, &src.k) {
            (SubK::S(a), SubK::S(b)) => a.clone_from(b),
            (SubK::A(a), SubK::A(b)) => a.clone_from(b),
            _ => unreachable!(),
        }
        let fresh = src.fresh;
        let (flag, waker) = flag_waker();
        self.subs.push(Some(SubH { k: t.k, flag, waker, fresh, parked: false, tparked: false }));
        sink.stat("sclonefrom");
        sink.line(&format!("osdrop {i}"), "ok");
        sink.line(&format!("oclone {j}"), &(self.subs.len() - 1).to_string());
    }
    pub fn sub_drop(&mut self, sink: &mut Sink, i: usize) {
        self.subs[i] = None;
        sink.stat("sdrop");
        sink.line(&format!("osdrop {i}"), "ok");
    }
    pub fn owner_get(&mut self, sink: &mut Sink, h: usize) {
        let cur = self.cur;
        let v = match self.owner(h) {
            // `get` and `read` alternate
            Own::U(o) => Some(if cur % 2 == 0 { Observable::get(o).0 } else { (**o).0 }), Own::UA(o) => Some(Observable::get_async(o).0),
            Own::S(o) => Some(match cur % 3 {
                0 => o.get().0,
                1 => {
                    // a live read guard: further readers are admitted, a writer is not (C04)
                    let g = o.read();
                    if o.try_write().is_ok() { sink.oracle_fail("C04", "try_write succeeded while a read guard is alive"); }
                    match o.try_read() { Ok(g2) => { if g2.0 != g.0 { sink.oracle_fail("C04,C01", "two read guards alive at once show different values"); } } Err(_) => sink.oracle_fail("C04", "try_read failed while only a read guard is alive") }
                    g.0
                }
                _ => o.try_read().expect("try_read with no guard alive").0,
            }),
            Own::SA(o) => if cur % 2 == 0 { now(o.get()).map(|t| t.0) } else { now(o.read()).map(|g| g.0) },
        };
        let shown = v.map(|v| v.to_string()).unwrap_or_else(|| "blocked".into());
        if shown != cur.to_string() { sink.oracle_fail(&self.p("C01"), &format!("get through owner {h} returned {shown}, the latest value is {cur}")); }
        sink.line(&format!("hget {h}"), &shown);
    }
    pub fn owner_clone(&mut self, sink: &mut Sink, h: usize) {
        let c = match self.owner(h) { Own::S(o) => Own::S(o.clone()), Own::SA(o) => Own::SA(o.clone()), _ => unreachable!() };
        self.clones.push(Some(c));
        sink.stat("hclone");
        sink.line(&format!("hclone {h}"), &(self.clones.len() - 1).to_string());
    }
    pub fn owner_drop(&mut self, sink: &mut Sink, h: usize) {
        if self.unique.is_some() { self.unique = None; } else { self.clones[h] = None; }
        if self.live_owners().is_empty() {
            self.open = false;
            self.check_all_woken(sink, "the drop of the last owner");
        }
        let w = self.woke();
        sink.stat("hdrop");
        sink.line(&format!("hdrop {h}"), &format!("ok{w}"));
    }
    /// the owner is dropped by stack unwinding (a panic is in flight while `Drop` runs)
    pub fn owner_drop_unwinding(&mut self, sink: &mut Sink, h: usize) {
        let o = if self.unique.is_some() { self.unique.take() } else { self.clones[h].take() };
        let _ = std::panic::catch_unwind(std::panic::AssertUnwindSafe(move || { let _keep = o; panic!("unwinding on purpose") }));
        if self.live_owners().is_empty() {
            self.open = false;
            self.check_all_woken(sink, "the drop of the last owner (by unwinding)");
        }
        let w = self.woke();
        sink.stat("hdropu");
        sink.line(&format!("hdropu {h}"), &format!("ok{w}"));
    }
    pub fn downgrade(&mut self, sink: &mut Sink, h: usize) {
        let k = match self.owner(h) { Own::S(o) => WeakK::S(o.downgrade()), Own::SA(o) => WeakK::A(o.downgrade()), _ => unreachable!() };
        self.weaks.push(Some(k));
        sink.stat("hdown");
        sink.line(&format!("hdown {h}"), &(self.weaks.len() - 1).to_string());
    }
    pub fn upgrade(&mut self, sink: &mut Sink, k: usize) {
        let r = match self.weaks[k].as_ref().unwrap() { WeakK::S(w) => w.upgrade().map(Own::S), WeakK::A(w) => w.upgrade().map(Own::SA) };
        let owners = self.live_owners().len();
        let shown = match r {
            Some(o) => { self.clones.push(Some(o)); fmt_opt(Some((self.clones.len() - 1) as u64)) }
            None => "none".into(),
        };
        if (shown != "none") != (owners > 0) {
            sink.oracle_fail(&self.p("C03"), &format!("upgrade returned {shown} while {owners} owner(s) exist"));
        }
        sink.stat("hup");
        sink.line(&format!("hup {k}"), &shown);
    }
    pub fn clone_weak(&mut self, sink: &mut Sink, k: usize) {
        let c = match self.weaks[k].as_ref().unwrap() { WeakK::S(w) => WeakK::S(w.clone()), WeakK::A(w) => WeakK::A(w.clone()) };
        self.weaks.push(Some(c));
        sink.stat("hclonew");
        sink.line(&format!("hclonew {k}"), &(self.weaks.len() - 1).to_string());
    }
    pub fn drop_weak(&mut self, sink: &mut Sink, k: usize) {
        self.weaks[k] = None;
        sink.line(&format!("hdropw {k}"), "ok");
    }
    pub fn into_shared(&mut self, sink: &mut Sink) {
        let o = self.unique.take().unwrap();
        let s = match o { Own::U(o) => Own::S(Observable::into_shared(o)), Own::UA(o) => Own::SA(Observable::into_shared(o)), _ => unreachable!() };
        self.clones.push(Some(s));
        // into_shared must not end the subscribers' streams
        let w = self.woke();
        if w != " woke=[]" { sink.oracle_fail(&self.p("C03"), "into_shared woke subscribers (as a close would)"); }
        sink.stat("hinto");
        sink.line("hinto", &(self.clones.len() - 1).to_string());
    }
    pub fn counts(&mut self, sink: &mut Sink, h: usize) {
        let (nc, ns, nw) = (self.live_owners().len(), self.live_subs().len(), self.live_weaks().len());
        let asyncf = self.asyncf;
        let kf = self.kf;
        let (shown, ok) = match self.owner(h) {
            Own::U(o) => { let c = Observable::subscriber_count(o); (format!("u {c}"), c == ns) }
            Own::UA(o) => { let c = Observable::subscriber_count(o); (format!("u {c}"), c == ns) }
            Own::S(o) => { let t = (o.observable_count(), o.subscriber_count(), o.strong_count(), o.weak_count()); (format!("{} {} {} {}", t.0, t.1, t.2, t.3), t == (nc, ns, nc + ns, nw)) }
            Own::SA(o) => { let t = (o.observable_count(), o.subscriber_count(), o.strong_count(), o.weak_count()); (format!("{} {} {} {}", t.0, t.1, t.2, t.3), t == (nc, ns, nc + ns, nw)) }
        };
        // known finding D8 (async flavour counts two references per subscriber): evaluated only in the confirmation cases
        if !ok && (!asyncf || ns == 0 || kf) {
            sink.oracle_fail(&self.p("C19"), &format!("counts through owner {h}: {shown}; live handles: {nc} clone(s), {ns} subscriber(s), {nw} weak"));
        }
        sink.stat("hcounts");
        sink.line(&format!("hcounts {h}"), &shown);
    }
}

#[derive(Clone, Debug)]
enum A { W(WOp, bool), G2(WOp, WOp), HDropU(usize), Sub(bool), Poll(usize), PollT(usize), PollF(usize, u8), Next(usize), Get(usize), Reset(usize), SClone(usize, bool), SCloneFrom(usize, usize), SDrop(usize),
         HClone, HDrop(usize), Down, Up(usize), DropW(usize), CloneW(usize), Into, Counts, HGet }

fn apply(w: &mut OW, sink: &mut Sink, a: &A) -> bool {
    let owners = w.live_owners();
    let subs = w.live_subs();
    let weaks = w.live_weaks();
    let h0 = owners.first().copied();
    match a {
        A::W(op, g) => { let Some(h) = owners.last().copied() else { return false }; if *g && w.is_unique() { return false; } w.write(sink, h, op, *g) }
        A::G2(o1, o2) => { let Some(h) = owners.last().copied() else { return false }; if w.is_unique() { return false; } w.write_guard_seq(sink, h, &[o1.clone(), o2.clone()]) }
        A::HDropU(k) => { if owners.is_empty() { return false; } let h = owners[*k % owners.len()]; w.owner_drop_unwinding(sink, h) }
        A::Sub(r) => { let Some(h) = h0 else { return false }; w.subscribe(sink, h, *r); }
        A::Poll(i) => { if !subs.contains(i) { return false; } w.poll(sink, *i) }
        A::PollT(i) => { if !subs.contains(i) { return false; } w.poll_with(sink, *i, true) }
        A::PollF(i, via) => { if !subs.contains(i) { return false; } w.poll_via(sink, *i, false, *via) }
        A::Next(i) => { if !subs.contains(i) { return false; } w.next_now(sink, *i) }
        A::Get(i) => { if !subs.contains(i) { return false; } w.get(sink, *i) }
        A::Reset(i) => { if !subs.contains(i) { return false; } w.reset(sink, *i) }
        A::SClone(i, r) => { if !subs.contains(i) || subs.len() >= 4 { return false; } w.sub_clone(sink, *i, *r) }
        A::SCloneFrom(i, j) => { if i == j || !subs.contains(i) || !subs.contains(j) { return false; } w.sub_clone_from(sink, *i, *j) }
        A::SDrop(i) => { if !subs.contains(i) { return false; } w.sub_drop(sink, *i) }
        A::HClone => { let Some(h) = h0 else { return false }; if w.is_unique() || owners.len() >= 3 { return false; } w.owner_clone(sink, h) }
        A::HDrop(k) => { if owners.is_empty() { return false; } let h = owners[*k % owners.len()]; w.owner_drop(sink, h) }
        A::Down => { let Some(h) = h0 else { return false }; if w.is_unique() || weaks.len() >= 2 { return false; } w.downgrade(sink, h) }
        A::Up(k) => { if !weaks.contains(k) || owners.len() >= 3 { return false; } w.upgrade(sink, *k) }
        A::DropW(k) => { if !weaks.contains(k) { return false; } w.drop_weak(sink, *k) }
        A::CloneW(k) => { if !weaks.contains(k) || weaks.len() >= 3 { return false; } w.clone_weak(sink, *k) }
        A::Into => { if !w.is_unique() { return false; } w.into_shared(sink) }
        A::Counts => { if owners.is_empty() { return false; } for h in owners.iter().copied() { w.counts(sink, h); } }   // through EVERY live handle: they must all agree
        A::HGet => { let Some(h) = h0 else { return false }; w.owner_get(sink, h) }
    }
    true
}

fn alphabet(full: bool) -> Vec<A> {
    let mut v = vec![
        A::W(WOp::Set(9), false), A::W(WOp::Sne(9), false), A::W(WOp::Sne(17), false), A::W(WOp::Shne(10), false), A::W(WOp::Shne(3), false),
        A::W(WOp::UpdIf(0, true), false), A::W(WOp::UpdIf(0, false), false),
        A::Sub(false), A::Sub(true), A::Poll(0), A::Poll(1), A::PollT(0), A::PollT(1), A::Next(0), A::Reset(0), A::SClone(0, false), A::SClone(0, true), A::SCloneFrom(1, 0), A::SDrop(0),
        A::HClone, A::HDrop(0), A::HDrop(1), A::HDropU(0), A::Down, A::Up(0), A::Into,
        A::G2(WOp::Set(9), WOp::UpdIf(0, false)), A::G2(WOp::Sne(1), WOp::Set(3)),
    ];
    if full {
        v.extend([A::W(WOp::Take, false), A::W(WOp::Upd(1), false), A::W(WOp::Set(1), true), A::W(WOp::UpdIf(0, false), true), A::W(WOp::Sne(9), true),
                  A::Get(0), A::Poll(2), A::PollF(0, 1), A::PollF(0, 2), A::PollF(1, 1), A::Next(1), A::Reset(1), A::SDrop(1), A::SCloneFrom(0, 1), A::DropW(0), A::CloneW(0), A::Up(1), A::Counts, A::HGet]);
    }
    v
}

fn run_case(sink: &mut Sink, id: &str, unique: bool, asyncf: bool, seq: &[A]) { run_case_init(sink, id, unique, asyncf, seq, 1) }
fn run_case_init(sink: &mut Sink, id: &str, unique: bool, asyncf: bool, seq: &[A], init: u64) {
    sink.case(id);
    let mut w = OW::new(sink, unique, asyncf, init);
    w.kf = id.starts_with("kf:");
    // start with one subscriber that has already polled (parked)
    w.subscribe(sink, 0, false);
    w.poll(sink, 0);
    for a in seq { apply(&mut w, sink, a); }
    // closing checks: every subscriber is polled twice, counts are read, then everything is dropped
    for i in w.live_subs() { w.poll(sink, i); w.poll(sink, i); w.get(sink, i); }
    for h in w.live_owners() { w.counts(sink, h); }
    for h in w.live_owners() { w.owner_drop(sink, h); }
    for i in w.live_subs() { w.poll(sink, i); w.poll(sink, i); w.get(sink, i); }
    for k in w.live_weaks() { w.upgrade(sink, k); }
    sink.nontrivial();
}

pub fn run(args: &Args, sink: &mut Sink, asyncf: bool) {
    let thorough = args.tier == "thorough";
    let mut n = 0u64;
    // exhaustive: every sequence over the alphabet up to the depth bound (inapplicable steps are skipped, so shorter
    // sequences are covered as well), unique and shared
    let depth_full = if thorough { 3 } else { 2 };
    let depth_small = if thorough { 4 } else { 3 };
    for unique in [true, false] {
        for (alpha, depth) in [(alphabet(true), depth_full), (alphabet(false), depth_small)] {
            let k = alpha.len();
            let total = k.pow(depth as u32);
            for code in 0..total {
                let seq: Vec<A> = (0..depth).map(|d| alpha[(code / k.pow(d as u32)) % k].clone()).collect();
                n += 1;
                run_case(sink, &format!("E{n}"), unique, asyncf, &seq);
            }
        }
    }
    // one task polling several subscribers with one waker: every sequence of length 5 (thorough 6) over a small alphabet
    let talpha = [A::PollT(0), A::PollT(1), A::Poll(1), A::W(WOp::Set(9), false), A::W(WOp::Sne(1), false), A::Sub(true), A::HDrop(0)];
    let tdepth = if thorough { 6 } else { 5 };
    for unique in [true, false] {
        let k = talpha.len();
        for code in 0..k.pow(tdepth as u32) {
            let seq: Vec<A> = (0..tdepth).map(|d| talpha[(code / k.pow(d as u32)) % k].clone()).collect();
            n += 1;
            run_case(sink, &format!("T{n}"), unique, asyncf, &seq);
        }
    }
    sink.stat_n("exhaustive", n);
    // known finding D8: async flavour, counts with live subscribers
    if asyncf {
        run_case(sink, "kf:D8:1", false, true, &[A::Sub(false), A::Counts]);
        run_case(sink, "kf:D8:2", true, true, &[A::Counts]);
        run_case(sink, "kf:D8:3", false, true, &[A::HClone, A::Sub(true), A::SClone(0, false), A::Counts]);
    }
    // random long histories
    let mut rng = Rng(args.seed ^ if asyncf { 0xA5C } else { 0x0B5 });
    let rounds = if thorough { 100000 } else { 2500 };
    for k in 0..rounds {
        let mut r = rng.fork();
        let len = 10 + r.below(40);
        let seq: Vec<A> = (0..len).map(|_| {
            let i = r.below(4);
            match r.below(30) {
                0..=1 => A::W(WOp::Set(r.below(40) as u64), r.chance(1, 4)),
                2 => { let mk = |r: &mut Rng| match r.below(5) { 0 => WOp::Set(r.below(40) as u64), 1 => WOp::Sne(r.below(40) as u64), 2 => WOp::Shne(r.below(40) as u64), 3 => WOp::UpdIf(r.below(3), r.chance(1, 2)), _ => WOp::Upd(r.below(3)) }; let a = mk(&mut r); let b = mk(&mut r); A::G2(a, b) }
                3..=4 => A::W(WOp::Sne(r.below(40) as u64), r.chance(1, 4)),
                5..=6 => A::W(WOp::Shne(r.below(40) as u64), r.chance(1, 4)),
                7 => A::W(WOp::Take, r.chance(1, 4)),
                8 => A::W(WOp::Upd(r.below(3)), r.chance(1, 4)),
                9..=10 => A::W(WOp::UpdIf(r.below(3), r.chance(1, 2)), r.chance(1, 4)),
                11 => A::Sub(r.chance(1, 3)),
                12..=14 => A::Poll(i), 15 => A::PollF(i, 1 + r.below(2) as u8), 16 => A::PollT(i),
                17 => A::Next(i), 18 => A::Get(i), 19 => A::Reset(i), 20 => if r.chance(1, 3) { A::SCloneFrom(i, r.below(4)) } else { A::SClone(i, r.chance(1, 2)) }, 21 => A::SDrop(i),
                22 => A::HClone, 23 => if r.chance(1, 4) { A::HDropU(r.below(3)) } else { A::HDrop(r.below(3)) }, 24 => A::Down, 25 => A::Up(r.below(3)), 26 => if r.chance(1, 2) { A::DropW(r.below(3)) } else { A::CloneW(r.below(2)) },
                27 => A::Into, 28 => A::Counts, _ => A::HGet,
            }
        }).collect();
        let init = [1, 1, 0, 5][r.below(4)];
        run_case_init(sink, &format!("R{k}"), r.chance(1, 2), asyncf, &seq, init);
    }
    run_cross(sink, asyncf);
    run_wakers(sink, asyncf);
    if asyncf { run_guards(args, sink); }
}

// ---------------------------------------------------------------------------------------------------------
// wakers and long-lived futures (oracles only; the lines are `xcf` notes): (a) wakers that share their data pointer and
// differ only in their vtable, (b) many registrations between two updates, (c) one `next()` / `next_ref()` future
// polled several times with different wakers, (d) the counts while such a future is pending
mod slotw {
    use std::sync::atomic::{AtomicBool, Ordering};
    use std::task::{RawWaker, RawWakerVTable, Waker};
    pub static WOKEN: [AtomicBool; 4] = [AtomicBool::new(false), AtomicBool::new(false), AtomicBool::new(false), AtomicBool::new(false)];
    fn raw<const K: usize>() -> RawWaker {
        fn cl<const K: usize>(_: *const ()) -> RawWaker { raw::<K>() }
        fn wk<const K: usize>(_: *const ()) { WOKEN[K].store(true, Ordering::SeqCst); }
        fn no(_: *const ()) {}
        // one vtable per slot; the data pointer is the same (null) for all of them
        struct VT<const K: usize>;
        impl<const K: usize> VT<K> { const V: RawWakerVTable = RawWakerVTable::new(cl::<K>, wk::<K>, wk::<K>, no); }
        RawWaker::new(std::ptr::null(), &VT::<K>::V)
    }
    pub fn waker(k: usize) -> Waker {
        // SAFETY: the vtable functions ignore the data pointer and touch only a static
        unsafe { match k { 0 => Waker::from_raw(raw::<0>()), 1 => Waker::from_raw(raw::<1>()), 2 => Waker::from_raw(raw::<2>()), _ => Waker::from_raw(raw::<3>()) } }
    }
    pub fn reset() { for w in &WOKEN { w.store(false, Ordering::SeqCst); } }
    pub fn woken() -> Vec<bool> { WOKEN.iter().map(|w| w.load(Ordering::SeqCst)).collect() }
}

fn run_wakers(sink: &mut Sink, asyncf: bool) {
    let mut n = 0;
    let mut case = |sink: &mut Sink, what: &str| { n += 1; sink.case(&format!("NW{n}:{what}")); };
    let poll_s = |s: &mut Subscriber<T>, w: &Waker| { let mut cx = Context::from_waker(w); match Pin::new(s).poll_next(&mut cx) { Poll::Ready(Some(t)) => format!("Ready({})", t.0), Poll::Ready(None) => "End".into(), Poll::Pending => "Pending".to_string() } };
    if !asyncf {
        // (a) same data pointer, different vtables: every pending subscriber's waker is woken by set / by the close
        for by_close in [false, true] { for nsub in [2usize, 3, 4] { for unique in [false, true] {
            case(sink, "slotwakers");
            slotw::reset();
            let (mut subs, shared, uniq): (Vec<Subscriber<T>>, Option<SharedObservable<T>>, Option<Observable<T>>) = if unique {
                let o = Observable::new(T(1)); ((0..nsub).map(|_| Observable::subscribe(&o)).collect(), None, Some(o))
            } else { let o = SharedObservable::new(T(1)); ((0..nsub).map(|_| o.subscribe()).collect(), Some(o), None) };
            for (k, s) in subs.iter_mut().enumerate() { let r = poll_s(s, &slotw::waker(k)); if r != "Pending" { sink.oracle_fail("C01", &format!("a subscriber that has seen the current value answers {r}")); } }
            let mut uniq = uniq;
            if by_close { drop(shared); drop(uniq.take()); } else if let Some(o) = &shared { o.set(T(2)); } else if let Some(o) = uniq.as_mut() { Observable::set(o, T(2)); }
            let w = slotw::woken();
            if w[..nsub].iter().any(|x| !*x) {
                sink.oracle_fail("C02,C01,C04", &format!("{nsub} pending subscribers whose wakers share their data pointer and differ in their vtable: woken after {} = {:?}", if by_close { "the drop of the observable" } else { "a set" }, &w[..nsub]));
            }
            sink.line("xcf nw slot", "ok"); sink.nontrivial();
        } } }
        // (b) many registrations between two updates: 40 pending subscribers; one pending subscriber and another polled 40 times
        for by_close in [false, true] {
            case(sink, "manywakers");
            let o = SharedObservable::new(T(1));
            let mut subs: Vec<(Subscriber<T>, Arc<Flag>, Waker)> = (0..40).map(|_| { let (f, w) = flag_waker(); (o.subscribe(), f, w) }).collect();
            for (s, _, w) in subs.iter_mut() { poll_s(s, w); }
            let first = { let (f, w) = flag_waker(); let mut s = o.subscribe(); poll_s(&mut s, &w); (s, f) };
            let mut busy = o.subscribe();
            for _ in 0..40 { let (_f, w) = flag_waker(); poll_s(&mut busy, &w); }
            if by_close { drop(o); } else { o.set(T(2)); }
            let missed = subs.iter().filter(|(_, f, _)| !f.0.load(Ordering::SeqCst)).count();
            if missed > 0 || !first.1 .0.load(Ordering::SeqCst) {
                sink.oracle_fail("C02,C01,C04", &format!("41 pending subscribers and 40 further registrations of a re-polled one: {} were not woken by {}", missed + (!first.1 .0.load(Ordering::SeqCst)) as usize, if by_close { "the drop of the last owner" } else { "a set" }));
            }
            sink.line("xcf nw many", "ok"); sink.nontrivial();
        }
        // (c) one next() / next_ref() future polled Pending several times with different wakers: the latest must be woken
        for which in [0u8, 1] { for polls in [2usize, 3] { for by_close in [false, true] {
            case(sink, "futurerepoll");
            let o = SharedObservable::new(T(1));
            let mut s = o.subscribe();
            let flags: Vec<(Arc<Flag>, Waker)> = (0..polls).map(|_| flag_waker()).collect();
            let mut bad = None;
            if which == 0 {
                let mut f = std::pin::pin!(s.next());
                for (_, w) in &flags { let mut cx = Context::from_waker(w); if !f.as_mut().poll(&mut cx).is_pending() { bad = Some("next()"); } }
                if by_close { drop(o); } else { o.set(T(2)); }
                let (_g, w) = flag_waker(); let mut cx = Context::from_waker(&w);
                let r = f.as_mut().poll(&mut cx);
                let want = if by_close { None } else { Some(2) };
                if r.map(|o| o.map(|t| t.0)) != Poll::Ready(want) { sink.oracle_fail("C01", "a pending next() future re-polled after the update / the close does not complete with it"); }
            } else {
                let mut f = std::pin::pin!(s.next_ref());
                for (_, w) in &flags { let mut cx = Context::from_waker(w); if !f.as_mut().poll(&mut cx).is_pending() { bad = Some("next_ref()"); } }
                if by_close { drop(o); } else { o.set(T(2)); }
            }
            if let Some(b) = bad { sink.oracle_fail("C01", &format!("{b} of a subscriber that has seen the current value is ready")); }
            if !flags.last().unwrap().0 .0.load(Ordering::SeqCst) {
                sink.oracle_fail("C02,C01,C04", &format!("one {} future polled Pending {polls} times, each time with another waker: the waker of the latest poll is not woken by {}", if which == 0 { "next()" } else { "next_ref()" }, if by_close { "the drop of the last owner" } else { "a set" }));
            }
            sink.line("xcf nw repoll", "ok"); sink.nontrivial();
        } } }
    }
    // (d) counts while a next() / next_ref() future of a subscriber is pending (default flavour: one reference per subscriber)
    if !asyncf {
        for which in [0u8, 1] { for unique in [false, true] {
            case(sink, "countspending");
            let (_f, w) = flag_waker();
            let mut cx = Context::from_waker(&w);
            if unique {
                let o = Observable::new(T(1));
                let mut s = Observable::subscribe(&o);
                let _s2 = Observable::subscribe(&o);
                let c = if which == 0 { let mut f = std::pin::pin!(s.next()); let _ = f.as_mut().poll(&mut cx); Observable::subscriber_count(&o) } else { let mut f = std::pin::pin!(s.next_ref()); let _ = f.as_mut().poll(&mut cx).is_pending(); Observable::subscriber_count(&o) };
                if c != 2 { sink.oracle_fail("C19", &format!("Observable::subscriber_count is {c} with 2 live subscribers while a {} future of one of them is pending", if which == 0 { "next()" } else { "next_ref()" })); }
            } else {
                let o = SharedObservable::new(T(1));
                let o2 = o.clone();
                let mut s = o.subscribe();
                let c = if which == 0 { let mut f = std::pin::pin!(s.next()); let _ = f.as_mut().poll(&mut cx); (o.observable_count(), o.subscriber_count(), o.strong_count(), o.weak_count()) } else { let mut f = std::pin::pin!(s.next_ref()); let _ = f.as_mut().poll(&mut cx).is_pending(); (o.observable_count(), o.subscriber_count(), o.strong_count(), o.weak_count()) };
                if c != (2, 1, 3, 0) { sink.oracle_fail("C19", &format!("counts (observable, subscriber, strong, weak) are {c:?} with 2 clones and 1 subscriber while a {} future of the subscriber is pending", if which == 0 { "next()" } else { "next_ref()" })); }
                drop(o2);
            }
            sink.line("xcf nw counts", "ok"); sink.nontrivial();
        } }
    }
}

// ---------------------------------------------------------------------------------------------------------
// handles of two different observables assigned to one another (`Clone::clone_from`, plain assignment): the counts
// of both observables stay exact (C19). Two observables are outside the one-observable model: oracles only.
/// counts while another thread is parked inside `subscribe()` behind a write guard: a call that has not returned has
/// created no subscriber yet (C19); oracle only
fn run_parked_subscribe(sink: &mut Sink) {
    for round in 0..3 {
        sink.case(&format!("XCP:{round}"));
        let o: SharedObservable<T> = SharedObservable::new(T(1));
        let _s0 = o.subscribe();
        let g = o.write();
        let o2 = o.clone();
        let (tx, rx) = std::sync::mpsc::channel();
        let h = std::thread::spawn(move || { tx.send(()).unwrap(); let s = o2.subscribe(); (s, o2) });
        rx.recv().unwrap();
        std::thread::sleep(std::time::Duration::from_millis(15 + 10 * round as u64));
        // the other thread is (almost certainly) blocked inside subscribe(); whether or not it is, it owns no subscriber yet
        let got = (o.observable_count(), o.subscriber_count(), o.strong_count());
        if got != (2, 1, 3) { sink.oracle_fail("C19", &format!("while a thread is parked in subscribe() behind a write guard the counts (observable, subscriber, strong) are {got:?}; live handles: 2 clones, 1 subscriber")); }
        drop(g);
        let (s1, o2) = h.join().unwrap();
        let got = (o.observable_count(), o.subscriber_count(), o.strong_count());
        if got != (2, 2, 4) { sink.oracle_fail("C19", &format!("after subscribe() returned the counts are {got:?}; live handles: 2 clones, 2 subscribers")); }
        drop(s1); drop(o2);
        sink.line(&format!("xcf parked {round}"), "ok");
        sink.nontrivial();
    }
}

/// async flavour, oracle only: a subscriber polled as a stream while a write guard is held is parked in the lock's wait queue
/// with the stream poll's waker; a `next_ref_now()` / `next_now()` / `next_ref()` future of the same subscriber that is polled and
/// cancelled in the meantime must not cost it that registration — the release of the guard wakes the stream's waker (C16, C02)
fn run_cancelled_under_guard(sink: &mut Sink) {
    for which in 0..3 {
        sink.case(&format!("XCG:{which}"));
        let ob: SharedObservable<T, AsyncLock> = SharedObservable::new_async(T(1));
        let mut s = now(ob.subscribe()).expect("subscribe blocked");
        let mut g = now(ob.write()).expect("write blocked");
        let (fw, w) = flag_waker();
        { let mut cx = Context::from_waker(&w);
          if !matches!(Pin::new(&mut s).poll_next(&mut cx), Poll::Pending) { sink.oracle_fail("C16", "a subscriber polled while a write guard is held is not Pending"); } }
        {
            let (_f2, w2) = flag_waker();
            let mut cx2 = Context::from_waker(&w2);
            let pending = match which {
                0 => { let mut f = Box::pin(s.next_ref_now()); matches!(f.as_mut().poll(&mut cx2), Poll::Pending) }
                1 => { let mut f = Box::pin(s.next_now()); matches!(f.as_mut().poll(&mut cx2), Poll::Pending) }
                _ => { let mut f = Box::pin(s.next_ref()); matches!(f.as_mut().poll(&mut cx2), Poll::Pending) }
            };
            if !pending { sink.oracle_fail("C16", "a call on a subscriber completed while a write guard is held"); }
        }
        ObservableWriteGuard::set(&mut g, T(5));
        drop(g);
        // `next_ref()` polls the subscriber's own lock future with ITS waker (the stream registration is superseded): only the
        // other two calls must leave the stream's registration alone
        if which < 2 && !fw.0.load(Ordering::SeqCst) {
            sink.oracle_fail("C16,C02", &format!("a subscriber was polled as a stream under a write guard, then a {} future of it was polled and cancelled; the release of the guard (after a set) does not wake the stream's waker", if which == 0 { "next_ref_now()" } else { "next_now()" }));
        }
        let (_f3, w3) = flag_waker();
        let mut cx3 = Context::from_waker(&w3);
        match Pin::new(&mut s).poll_next(&mut cx3) {
            Poll::Ready(Some(t)) if t.0 == 5 => {}
            other => sink.oracle_fail("C16,C01", &format!("after the guard was released the stream answers {:?}, the value 5 was set", other.map(|o| o.map(|t| t.0)))),
        }
        sink.line(&format!("xcf cancelled {which}"), "ok");
        sink.nontrivial();
    }
}

fn run_cross(sink: &mut Sink, asyncf: bool) {
    if !asyncf { run_parked_subscribe(sink); } else { run_cancelled_under_guard(sink); }
    let per_sub = if asyncf { 2 } else { 1 }; // async subscribers hold two references (known finding D8)
    macro_rules! scen { ($new:expr, $flav:ty, $sub:expr, $tag:expr) => {{
        for variant in 0..8 {
            sink.case(&format!("XCF:{}:{variant}", $tag));
            let a: SharedObservable<T, $flav> = $new(T(1));
            let b: SharedObservable<T, $flav> = $new(T(2));
            let mut a2 = a.clone();
            let b2 = b.clone();
            let mut sa: Subscriber<T, $flav> = $sub(&a);
            let sb: Subscriber<T, $flav> = $sub(&b);
            let mut expect = |what: &str, a_cl: usize, a_su: usize, b_cl: usize, b_su: usize, sink: &mut Sink| {
                let got = (a.observable_count(), a.subscriber_count(), a.strong_count(), b.observable_count(), b.subscriber_count(), b.strong_count());
                let want = (a_cl, a_su * per_sub, a_cl + a_su * per_sub, b_cl, b_su * per_sub, b_cl + b_su * per_sub);
                if got != want { sink.oracle_fail("C19", &format!("{what}: counts (observable, subscriber, strong) of the two observables are {got:?}, the live handles say {want:?}")); }
            };
            expect("two observables, two clones and one subscriber each", 2, 1, 2, 1, sink);
            match variant {
                0 => { a2.clone_from(&b); expect("after a2.clone_from(&b)", 1, 1, 3, 1, sink); }
                1 => { a2 = b.clone(); expect("after a2 = b.clone()", 1, 1, 3, 1, sink); }
                2 => { sa.clone_from(&sb); expect("after sa.clone_from(&sb)", 2, 0, 2, 2, sink); }
                3 => { sa = sb.clone(); expect("after sa = sb.clone()", 2, 0, 2, 2, sink); }
                // a weak reference of `a` overwritten by one of `b` (clone_from / assignment), then upgraded: a handle of `b`
                6 | 7 => {
                    let mut wa = a.downgrade();
                    if variant == 6 { wa.clone_from(&b.downgrade()); } else { wa = b.downgrade(); }
                    let up = wa.upgrade();
                    if up.is_none() { sink.oracle_fail("C19,C03", "a weak reference overwritten by one of a live observable does not upgrade"); }
                    expect("after a weak reference of a was overwritten by one of b and upgraded", 2, 1, 3, 1, sink);
                    if (a.weak_count(), b.weak_count()) != (0, 1) { sink.oracle_fail("C19", &format!("weak counts of the two observables are ({}, {}), the live weak references say (0, 1)", a.weak_count(), b.weak_count())); }
                    drop(up);
                    expect("after dropping the upgraded handle", 2, 1, 2, 1, sink);
                    drop(wa);
                }
                _ => {}
            }
            drop(b2);
            match variant { 0 | 1 => expect("after dropping a clone of b", 1, 1, 2, 1, sink), 2 | 3 => expect("after dropping a clone of b", 2, 0, 1, 2, sink), _ => {} }
            if variant == 4 || variant == 5 {
                // the LAST owner of `a` is overwritten by a handle of `b`: `a` has no owner left, its stream ends (C03)
                let wa = a2.downgrade();
                drop(a);
                if variant == 4 { a2.clone_from(&b); } else { a2 = b.clone(); }
                let (_f, w) = flag_waker();
                let mut cx = Context::from_waker(&w);
                let r1 = Pin::new(&mut sa).poll_next(&mut cx);
                if !matches!(r1, Poll::Ready(None)) { sink.oracle_fail("C03", &format!("the last owner of an observable was overwritten by {}; its subscriber's stream does not end", if variant == 4 { "clone_from(&other)" } else { "= other.clone()" })); }
                if wa.upgrade().is_some() { sink.oracle_fail("C03", "the last owner of an observable was overwritten; a weak reference still upgrades"); }
                sink.line(&format!("xcf {} {variant}", $tag), "ok");
                sink.nontrivial();
                continue;
            }
            let _ = (&a2, &sa, &sb);
            sink.line(&format!("xcf {} {variant}", $tag), "ok");
            sink.nontrivial();
        }
    }}; }
    if asyncf {
        scen!(SharedObservable::<T, AsyncLock>::new_async, AsyncLock, |o: &SharedObservable<T, AsyncLock>| now(o.subscribe()).expect("subscribe blocked"), "async");
    } else {
        scen!(SharedObservable::<T>::new, eyeball::SyncLock, |o: &SharedObservable<T>| o.subscribe(), "sync");
    }
}

// ---------------------------------------------------------------------------------------------------------
// async-lock flavour with guards held across other calls, pending futures, cancellation (C16)
use eyeball::ObservableReadGuard;

enum FOut { Sne(Option<u64>, u64), UpdIf(usize, bool), Val(u64), NewSub(Subscriber<T, AsyncLock>), Res(String), RG(ObservableReadGuard<'static, T, AsyncLock>), WG(ObservableWriteGuard<'static, T, AsyncLock>), RGV(ObservableReadGuard<'static, T, AsyncLock>) }
struct PFut { f: Pin<Box<dyn Future<Output = FOut>>>, flag: Arc<Flag>, waker: Waker, woken: bool, val: Option<u64>, sub: Option<usize>,
              /// a `next_ref()` future (its polls are printed with the wakers they cause)
              nextref: bool }
enum GuardK { R(#[allow(dead_code)] ObservableReadGuard<'static, T, AsyncLock>), W(ObservableWriteGuard<'static, T, AsyncLock>) }

struct GW {
    ob: &'static SharedObservable<T, AsyncLock>,
    /// boxed: a `next_ref()` future borrows the subscriber it belongs to, so it must not move
    subs: Vec<Option<Box<SubH>>>,
    /// the `next_ref()` future currently borrowing the subscriber
    driven: Vec<Option<usize>>,
    /// per guard: the subscriber it was handed out by (and borrows)
    gsub: Vec<Option<usize>>,
    /// a `next_ref()` future of the subscriber was cancelled half-way: whether the latest value still counts as unobserved is not known
    unknown: Vec<bool>,
    futs: Vec<Option<PFut>>,
    guards: Vec<Option<GuardK>>,
    nfut: usize,
    cur: u64,
    /// the subscriber's last poll was Pending while the lock was contended: its reusable lock future may be queued or hold a read permit
    lockwait: Vec<bool>,
    /// … and a write guard was held at that time
    under_w: Vec<bool>,
}

impl GW {
    fn new(sink: &mut Sink, v: u64) -> GW {
        sink.line(&format!("onew shared async {v}"), "ok");
        let ob: &'static SharedObservable<T, AsyncLock> = Box::leak(Box::new(SharedObservable::new_async(T(v))));
        GW { ob, subs: vec![], driven: vec![], gsub: vec![], unknown: vec![], futs: vec![], guards: vec![], nfut: 0, cur: v, lockwait: vec![], under_w: vec![] }
    }
    fn quiet(&self) -> bool { self.guards.iter().all(|g| g.is_none()) && self.futs.iter().all(|f| f.is_none()) && self.lockwait.iter().all(|b| !*b) }
    fn wguard_held(&self) -> bool { self.guards.iter().any(|g| matches!(g, Some(GuardK::W(_)))) }
    fn woke(&mut self) -> String {
        let mut ids = vec![];
        for (i, s) in self.subs.iter_mut().enumerate() {
            if let Some(s) = s { if s.flag.0.swap(false, Ordering::SeqCst) { ids.push(i as u64); s.parked = false; } }
        }
        format!(" woke={}", fmt_list(&ids))
    }
    fn wokef(&mut self) -> String {
        let mut ids = vec![];
        for (k, f) in self.futs.iter_mut().enumerate() {
            if let Some(f) = f { if f.flag.0.swap(false, Ordering::SeqCst) { ids.push(k as u64); f.woken = true; } }
        }
        if ids.is_empty() { String::new() } else { format!(" wokef={}", fmt_list(&ids)) }
    }
    fn mark_fresh(&mut self) { for s in self.subs.iter_mut().flatten() { s.fresh = true; } }

    /// start a future, poll it once
    fn start(&mut self, sink: &mut Sink, text: &str, f: Pin<Box<dyn Future<Output = FOut>>>, notify_to: Option<u64>) {
        let k = self.nfut;
        self.nfut += 1;
        let (flag, waker) = flag_waker();
        let mut pf = PFut { f, flag, waker, woken: false, val: notify_to, sub: None, nextref: false };
        let mut cx = Context::from_waker(&pf.waker);
        match pf.f.as_mut().poll(&mut cx) {
            Poll::Ready(out) => { self.futs.push(None); self.complete(sink, text, out, notify_to, false); }
            Poll::Pending => {
                if self.quiet() { sink.oracle_fail("C16", &format!("{text}: the future had to wait although no guard is held and nothing is queued")); }
                self.futs.push(Some(pf));
                let _ = k;
                sink.line(text, &format!("Pending({k})"));
            }
        }
    }
    fn complete(&mut self, sink: &mut Sink, text: &str, out: FOut, notify_to: Option<u64>, with_woke: bool) {
        let out = match out {
            FOut::Sne(r, v) => {
                // the comparison and the store are one step: a replaced value differs from the new one, and is the latest one
                if let Some(o) = r {
                    if T(o) == T(v) { sink.oracle_fail("C16,C04", &format!("set_if_not_eq({v}) replaced the equal value {o} (and notified)")); }
                    if o != self.cur { sink.oracle_fail("C16,C04", &format!("set_if_not_eq({v}) returned {o} as the replaced value, the latest value was {}", self.cur)); }
                } else if T(self.cur) != T(v) { sink.oracle_fail("C16,C04", &format!("set_if_not_eq({v}) did nothing although the latest value {} differs", self.cur)); }
                FOut::Res(fmt_opt(r))
            }
            FOut::UpdIf(id, notify) => {
                self.cur = crate::eng_diff::map_fn(id)(self.cur);
                if notify { self.mark_fresh(); }
                else {
                    // C01 / C16: an update_if whose closure answers false notifies nobody: a subscriber parked on the version
                    // (not waiting for the lock) is not woken by it
                    for (i, s) in self.subs.iter().enumerate() { if let Some(s) = s { if s.parked && !self.lockwait[i] && !self.under_w[i] && s.flag.0.load(Ordering::SeqCst) {
                        sink.oracle_fail("C16,C01", &format!("update_if whose closure returned false woke subscriber {i}, which was waiting for an update"));
                    } } }
                }
                FOut::Res("-".into())
            }
            o => o,
        };
        match out {
            FOut::Sne(..) | FOut::UpdIf(..) => unreachable!(),
            FOut::Res(r) => {
                if let Some(v) = notify_to { if r != "none" { self.cur = v; self.mark_fresh(); } }
                let w = self.woke(); let wf = self.wokef();
                sink.line(text, &format!("{r}{w}{wf}"));
            }
            FOut::RGV(_) | FOut::Val(_) => unreachable!(),
            FOut::NewSub(k) => {
                let (flag, waker) = flag_waker();
                self.subs.push(Some(Box::new(SubH { k: SubK::A(k), flag, waker, fresh: false, parked: false, tparked: false })));
                self.driven.push(None); self.unknown.push(false); self.lockwait.push(false); self.under_w.push(false);
                let w = self.woke(); let wf = self.wokef();
                sink.line(text, &format!("sub {}{w}{wf}", self.subs.len() - 1));
            }
            FOut::RG(g) => { self.gsub.push(None); self.guards.push(Some(GuardK::R(g))); let s = if with_woke { format!("{}{}", self.woke(), self.wokef()) } else { String::new() }; sink.line(text, &format!("guard {}{s}", self.guards.len() - 1)); }
            FOut::WG(g) => { self.gsub.push(None); self.guards.push(Some(GuardK::W(g))); let s = if with_woke { format!("{}{}", self.woke(), self.wokef()) } else { String::new() }; sink.line(text, &format!("guard {}{s}", self.guards.len() - 1)); }
        }
    }
    fn write(&mut self, sink: &mut Sink, v: u64, sne: bool) {
        let ob = self.ob;
        let text = if sne { format!("w 0 sne {v}") } else { format!("w 0 set {v}") };
        let f: Pin<Box<dyn Future<Output = FOut>>> = if sne {
            Box::pin(async move { FOut::Sne(ob.set_if_not_eq(T(v)).await.map(|t| t.0), v) })
        } else {
            Box::pin(async move { FOut::Res(ob.set(T(v)).await.0.to_string()) })
        };
        self.start(sink, &text, f, Some(v));
    }
    /// `update_if` as a future (it waits for the write lock): the closure maps the value with table function `id` and
    /// answers `notify`
    fn write_updif(&mut self, sink: &mut Sink, id: usize, notify: bool) {
        let ob = self.ob;
        let g = crate::eng_diff::map_fn(id);
        let text = format!("w 0 updif {id} {}", notify as u8);
        self.start(sink, &text, Box::pin(async move { ob.update_if(move |t| { t.0 = g(t.0); notify }).await; FOut::UpdIf(id, notify) }), None);
    }
    fn wguard(&mut self, sink: &mut Sink) { let ob = self.ob; self.start(sink, "awg 0", Box::pin(async move { FOut::WG(ob.write().await) }), None); }
    fn rguard(&mut self, sink: &mut Sink) { let ob = self.ob; self.start(sink, "arg 0", Box::pin(async move { FOut::RG(ob.read().await) }), None); }
    fn fpoll(&mut self, sink: &mut Sink, k: usize) {
        if self.futs[k].is_none() { return; }
        let quiet_but_me = self.guards.iter().all(|g| g.is_none()) && self.futs.iter().enumerate().all(|(j, f)| j == k || f.is_none()) && self.lockwait.iter().all(|b| !*b);
        let pf = self.futs[k].as_mut().unwrap();
        if pf.flag.0.swap(false, Ordering::SeqCst) { pf.woken = true; }
        let waker = pf.waker.clone();
        let mut cx = Context::from_waker(&waker);
        let sub = pf.sub;
        let nextref = pf.nextref;
        match pf.f.as_mut().poll(&mut cx) {
            Poll::Pending => {
                pf.woken = false;
                if let (Some(i), true) = (sub, nextref) {
                    if !quiet_but_me { self.lockwait[i] = true; }
                    let w = self.woke(); let wf = self.wokef();
                    sink.line(&format!("afpoll {k}"), &format!("Pending({k}){w}{wf}"));
                } else { sink.line(&format!("afpoll {k}"), &format!("Pending({k})")); }
            }
            Poll::Ready(out) if sub.is_some() => {
                if !pf.woken { sink.oracle_fail("C16,C02", &format!("pending next_ref() future {k} completed on a re-poll although its waker was never woken")); }
                self.futs[k] = None;
                self.finish_next(sink, &format!("afpoll {k}"), sub.unwrap(), out);
            }
            Poll::Ready(out) => {
                if !pf.woken { sink.oracle_fail("C16,C02", &format!("pending future {k} completed on a re-poll although its waker was never woken (a waiting writer/reader was not woken when the lock was released)")); }
                let val = pf.val;
                self.futs[k] = None;
                self.complete(sink, &format!("afpoll {k}"), out, val, true);
            }
        }
    }
    fn busy(&self, i: usize) -> bool {
        self.driven[i].is_some() || self.guards.iter().enumerate().any(|(g, x)| x.is_some() && self.gsub[g] == Some(i))
    }
    /// `sub.next_ref()` as a future: created and polled once
    fn anext(&mut self, sink: &mut Sink, i: usize) {
        if self.subs[i].is_none() || self.busy(i) { return; }
        let quiet = self.quiet();
        let unknown = self.unknown[i];
        let s = self.subs[i].as_mut().unwrap();
        let fresh = s.fresh;
        // the future polls the subscriber's lock future with its own waker: the stream-poll registration no longer counts
        s.parked = false;
        let SubK::A(sb) = &mut s.k else { unreachable!() };
        let p: *mut Subscriber<T, AsyncLock> = sb;
        // the harness never touches subscriber `i` again while this future or the guard it returns is alive (`busy`)
        let f: Pin<Box<dyn Future<Output = FOut>>> = Box::pin(async move {
            let s: &'static mut Subscriber<T, AsyncLock> = unsafe { &mut *p };
            match s.next_ref().await { Some(g) => FOut::RGV(g), None => FOut::Res("none".into()) }
        });
        let k = self.nfut;
        self.nfut += 1;
        let (flag, waker) = flag_waker();
        let mut pf = PFut { f, flag, waker, woken: false, val: None, sub: Some(i), nextref: true };
        let mut cx = Context::from_waker(&pf.waker);
        let text = format!("anext {i}");
        match pf.f.as_mut().poll(&mut cx) {
            Poll::Ready(out) => { self.futs.push(None); self.finish_next(sink, &text, i, out); }
            Poll::Pending => {
                if quiet && fresh && !unknown { sink.oracle_fail("C16,C01", &format!("next_ref() of subscriber {i} had to wait although a value it has not seen is set and the lock is free")); }
                if !quiet { self.lockwait[i] = true; }
                self.futs.push(Some(pf));
                self.driven[i] = Some(k);
                let w = self.woke(); let wf = self.wokef();
                sink.line(&text, &format!("Pending({k}){w}{wf}"));
            }
        }
    }
    /// `sub.next_now()` as a future: created and polled once
    fn anextnow(&mut self, sink: &mut Sink, i: usize) {
        if self.subs[i].is_none() || self.busy(i) { return; }
        let s = self.subs[i].as_mut().unwrap();
        s.parked = false;
        let SubK::A(sb) = &mut s.k else { unreachable!() };
        let p: *mut Subscriber<T, AsyncLock> = sb;
        let f: Pin<Box<dyn Future<Output = FOut>>> = Box::pin(async move {
            let s: &'static mut Subscriber<T, AsyncLock> = unsafe { &mut *p };
            FOut::Val(s.next_now().await.0)
        });
        let k = self.nfut;
        self.nfut += 1;
        let quiet = self.quiet();
        let (flag, waker) = flag_waker();
        let mut pf = PFut { f, flag, waker, woken: false, val: None, sub: Some(i), nextref: false };
        let mut cx = Context::from_waker(&pf.waker);
        let text = format!("anextnow {i}");
        match pf.f.as_mut().poll(&mut cx) {
            Poll::Ready(out) => { self.futs.push(None); self.finish_next(sink, &text, i, out); }
            Poll::Pending => {
                if quiet { sink.oracle_fail("C16", &format!("{text}: the future had to wait although no guard is held and nothing is queued")); }
                self.futs.push(Some(pf));
                self.driven[i] = Some(k);
                sink.line(&text, &format!("Pending({k})"));
            }
        }
    }
    /// `ob.subscribe()` as a future (it waits for the read lock)
    fn asub(&mut self, sink: &mut Sink) {
        let ob = self.ob;
        self.start(sink, "asub 0", Box::pin(async move { FOut::NewSub(ob.subscribe().await) }), None);
    }
    /// the four counters, against the numbers of live handles (each async subscriber counts twice: known finding D8)
    fn gcounts(&mut self, sink: &mut Sink) {
        let subs = self.subs.iter().filter(|s| s.is_some()).count();
        let (oc, sc, st, wk) = (self.ob.observable_count(), self.ob.subscriber_count(), self.ob.strong_count(), self.ob.weak_count());
        if oc != 1 || sc != 2 * subs || st != 1 + 2 * subs || wk != 0 {
            sink.oracle_fail("C19,C16", &format!("counts {oc} {sc} {st} {wk} with 1 clone, {subs} live subscriber(s) (2 references each), no weak reference, {} call(s) suspended", self.futs.iter().filter(|f| f.is_some()).count()));
        }
        sink.line("hcounts 0", &format!("{oc} {sc} {st} {wk}"));
    }
    fn finish_next(&mut self, sink: &mut Sink, text: &str, i: usize, out: FOut) {
        self.driven[i] = None;
        match out {
            FOut::RGV(g) => {
                let v = g.0;
                if v != self.cur { sink.oracle_fail("C16,C04", &format!("the guard returned by next_ref() of subscriber {i} shows {v}, the latest value is {}", self.cur)); }
                let s = self.subs[i].as_mut().unwrap();
                s.fresh = false; s.parked = false;
                self.unknown[i] = false;
                self.lockwait[i] = false; // the update check went through: the subscriber's lock future is a fresh one again
                self.gsub.push(Some(i));
                self.guards.push(Some(GuardK::R(g)));
                let w = self.woke(); let wf = self.wokef();
                sink.line(text, &format!("guard {} {v}{w}{wf}", self.guards.len() - 1));
            }
            FOut::Val(v) => {
                if v != self.cur { sink.oracle_fail("C16,C01", &format!("next_now() of subscriber {i} returned {v}, the latest value is {}", self.cur)); }
                let s = self.subs[i].as_mut().unwrap();
                s.fresh = false; s.parked = false;
                self.unknown[i] = false;
                let w = self.woke(); let wf = self.wokef();
                sink.line(text, &format!("{v}{w}{wf}"));
            }
            FOut::Res(r) => {
                sink.oracle_fail("C16,C03", &format!("next_ref() of subscriber {i} returned {r} while the observable is alive"));
                let w = self.woke(); let wf = self.wokef();
                sink.line(text, &format!("{r}{w}{wf}"));
            }
            _ => unreachable!(),
        }
    }
    fn fdrop(&mut self, sink: &mut Sink, k: usize) {
        if let Some(Some(pf)) = self.futs.get(k) { if let Some(i) = pf.sub { self.driven[i] = None; self.unknown[i] = true; } }
        if self.futs[k].take().is_none() { return; }
        let w = self.woke(); let wf = self.wokef();
        sink.line(&format!("afdrop {k}"), &format!("ok{w}{wf}"));
    }
    fn gdrop(&mut self, sink: &mut Sink, g: usize) {
        let was_w = matches!(self.guards[g], Some(GuardK::W(_)));
        if self.guards[g].take().is_none() { return; }
        // C16: a subscriber that was polled while the write guard was held is woken by its release
        if was_w { for (i, s) in self.subs.iter().enumerate() { if let Some(s) = s { if self.under_w[i] && s.parked && !s.flag.0.load(Ordering::SeqCst) && self.futs.iter().all(|f| f.is_none()) {
            sink.oracle_fail("C16,C02", &format!("subscriber {i} was polled while the write guard was held and is not woken by the release of the guard"));
        } } } }
        let w = self.woke(); let wf = self.wokef();
        sink.line(&format!("agdrop {g}"), &format!("ok{w}{wf}"));
    }
    fn gset(&mut self, sink: &mut Sink, g: usize, v: u64) {
        let Some(GuardK::W(gd)) = self.guards[g].as_mut() else { return };
        let prev = ObservableWriteGuard::set(gd, T(v)).0;
        if prev != self.cur { sink.oracle_fail("C16,C01", &format!("set through the write guard returned {prev}, the latest value was {}", self.cur)); }
        self.cur = v;
        self.mark_fresh();
        let w = self.woke(); let wf = self.wokef();
        sink.line(&format!("agset {g} set {v}"), &format!("{prev}{w}{wf}"));
    }
    fn tryrw(&mut self, sink: &mut Sink, write: bool) {
        let r = if write { self.ob.try_write().is_some() } else { self.ob.try_read().is_some() };
        let any_w = self.wguard_held();
        let any = self.guards.iter().any(|g| g.is_some());
        // while a write guard is alive nothing else reads or writes; while any guard is alive nobody writes
        if (any_w && r) || (write && any && r) { sink.oracle_fail("C16,C04", &format!("try_{} succeeded while a conflicting guard is held", if write { "write" } else { "read" })); }
        sink.line(&format!("{} 0", if write { "atryw" } else { "atryr" }), if r { "some" } else { "none" });
    }
    fn subscribe(&mut self, sink: &mut Sink, reset: bool) {
        let k = if reset { self.ob.subscribe_reset() } else { now(self.ob.subscribe()).expect("subscribe blocked") };
        let (flag, waker) = flag_waker();
        self.subs.push(Some(Box::new(SubH { k: SubK::A(k), flag, waker, fresh: reset, parked: false, tparked: false })));
        self.driven.push(None);
        self.unknown.push(false);
        self.lockwait.push(false);
        self.under_w.push(false);
        sink.line(&format!("{} 0", if reset { "osubr" } else { "osub" }), &(self.subs.len() - 1).to_string());
    }
    fn poll(&mut self, sink: &mut Sink, i: usize) {
        if self.busy(i) { return; }
        let cur = self.cur;
        let (quiet, wheld) = (self.quiet(), self.wguard_held());
        let unknown = self.unknown[i];
        if quiet { self.unknown[i] = false; }
        let s = self.subs[i].as_mut().unwrap();
        let was_parked = s.parked && !s.flag.0.load(Ordering::SeqCst);
        let mut cx = Context::from_waker(&s.waker);
        let SubK::A(sb) = &mut s.k else { unreachable!() };
        let r = Pin::new(sb).poll_next(&mut cx);
        let shown = match &r { Poll::Ready(Some(t)) => format!("Ready({})", t.0), Poll::Ready(None) => "End".into(), Poll::Pending => "Pending".into() };
        let fresh_before = s.fresh;
        match r { Poll::Pending => { s.parked = true; s.flag.0.store(false, Ordering::SeqCst); } _ => { s.parked = false; s.fresh = false; } }
        self.lockwait[i] = shown == "Pending" && !quiet;
        self.under_w[i] = shown == "Pending" && wheld;
        if wheld && shown != "Pending" { sink.oracle_fail("C16,C04", &format!("subscriber {i} polled while a write guard is held answered {shown}")); }
        if quiet && unknown { s.fresh = false; }
        if quiet && !unknown {
            let expect = if fresh_before { format!("Ready({cur})") } else { "Pending".into() };
            if shown != expect { sink.oracle_fail("C16,C01", &format!("poll of subscriber {i} answered {shown}, the default flavour would answer {expect}")); }
        }
        if was_parked && shown != "Pending" { sink.oracle_fail("C16,C02", &format!("subscriber {i} was Pending, was not woken, and a further poll answered {shown}")); }
        let wf = self.wokef();
        sink.line(&format!("opoll {i}"), &format!("{shown}{wf}"));
    }
    fn sdrop(&mut self, sink: &mut Sink, i: usize) {
        if self.busy(i) { return; }
        self.subs[i] = None;
        self.lockwait[i] = false;
        let wf = self.wokef();
        sink.line(&format!("osdrop {i}"), &format!("ok{wf}"));
    }
    /// release everything and drive every pending future to completion
    fn settle(&mut self, sink: &mut Sink) {
        for g in 0..self.guards.len() { self.gdrop(sink, g); }
        for round in 0..60 {
            if self.futs.iter().all(|f| f.is_none()) && self.guards.iter().all(|g| g.is_none()) { break; }
            // a next_ref() future with nothing new to deliver stays pending for good: cancel it
            if round >= 3 { for k in 0..self.futs.len() {
                // … and one whose subscriber's own lock future sits on a read permit blocks the writers in front of it: cancel it, so that the subscriber can be polled
                let stale = match &self.futs[k] { Some(pf) => match pf.sub { Some(i) => (pf.nextref && (!self.subs[i].as_ref().unwrap().fresh || self.unknown[i])) || self.lockwait[i], None => false }, None => false };
                if stale { self.fdrop(sink, k); }
            } }
            for i in 0..self.subs.len() { if self.subs[i].is_some() && self.lockwait[i] { self.poll(sink, i); } }
            for k in 0..self.futs.len() { if self.futs[k].is_some() { self.fpoll(sink, k); } }
            for g in 0..self.guards.len() { self.gdrop(sink, g); }
        }
        if self.futs.iter().any(|f| f.is_some()) { sink.oracle_fail("C16", "after every guard was released some future still does not complete"); }
        for i in 0..self.subs.len() { if self.subs[i].is_some() { self.poll(sink, i); self.poll(sink, i); } }
    }
}

pub fn run_guards(args: &Args, sink: &mut Sink) {
    let thorough = args.tier == "thorough";
    // hand-written scenarios of the property statement
    sink.case("G:writer-waits-for-read-guard");
    { let mut w = GW::new(sink, 1); w.subscribe(sink, false); w.poll(sink, 0); w.rguard(sink); w.write(sink, 5, false); w.poll(sink, 0); w.gdrop(sink, 0); w.fpoll(sink, 0 + 1); w.settle(sink); sink.nontrivial(); }
    sink.case("G:subscriber-under-write-guard");
    { let mut w = GW::new(sink, 1); w.subscribe(sink, false); w.wguard(sink); w.gset(sink, 0, 7); w.poll(sink, 0); w.poll(sink, 0); w.gdrop(sink, 0); w.poll(sink, 0); w.poll(sink, 0); w.settle(sink); sink.nontrivial(); }
    sink.case("G:cancelled-writer");
    { let mut w = GW::new(sink, 1); w.subscribe(sink, true); w.rguard(sink); w.write(sink, 5, false); w.rguard(sink); w.fdrop(sink, 1); w.fpoll(sink, 2); w.settle(sink); sink.nontrivial(); }
    let mut rng = Rng(args.seed ^ 0x6A2D);
    let rounds = if thorough { 100000 } else { 3000 };
    for k in 0..rounds {
        let mut r = rng.fork();
        sink.case(&format!("G{k}"));
        let mut w = GW::new(sink, 1);
        let steps = 8 + r.below(25);
        for _ in 0..steps {
            let live_subs: Vec<usize> = w.subs.iter().enumerate().filter(|(_, s)| s.is_some()).map(|(i, _)| i).collect();
            let live_futs: Vec<usize> = w.futs.iter().enumerate().filter(|(_, s)| s.is_some()).map(|(i, _)| i).collect();
            let live_guards: Vec<usize> = w.guards.iter().enumerate().filter(|(_, s)| s.is_some()).map(|(i, _)| i).collect();
            match r.below(16) {
                0 => w.write(sink, r.below(30) as u64, r.chance(1, 3)),
                1 => if r.chance(1, 2) { w.write_updif(sink, r.below(3), r.chance(1, 2)) } else { w.write(sink, r.below(30) as u64, r.chance(1, 3)) },
                2 => if live_guards.len() < 3 { w.wguard(sink) },
                3 | 4 => if live_guards.len() < 3 { w.rguard(sink) },
                5 | 6 if !live_guards.is_empty() => w.gdrop(sink, live_guards[r.below(live_guards.len())]),
                7 if w.wguard_held() => { let g = live_guards.iter().copied().find(|g| matches!(w.guards[*g], Some(GuardK::W(_)))).unwrap(); w.gset(sink, g, r.below(30) as u64) }
                8 | 9 if !live_futs.is_empty() => w.fpoll(sink, live_futs[r.below(live_futs.len())]),
                10 if !live_futs.is_empty() => w.fdrop(sink, live_futs[r.below(live_futs.len())]),
                11 if !live_subs.is_empty() => w.poll(sink, live_subs[r.below(live_subs.len())]),
                12 if !live_subs.is_empty() => { let i = live_subs[r.below(live_subs.len())]; match r.below(4) { 0 | 1 => w.anext(sink, i), 2 => w.anextnow(sink, i), _ => w.poll(sink, i) } }
                14 if r.chance(1, 2) => w.gcounts(sink),
                13 if live_subs.len() < 3 && r.chance(1, 2) => w.asub(sink),
                13 if w.quiet() && live_subs.len() < 3 => w.subscribe(sink, r.chance(1, 3)),
                13 if live_subs.len() < 3 => w.subscribe(sink, true),
                14 => w.tryrw(sink, r.chance(1, 2)),
                15 if !live_subs.is_empty() && r.chance(1, 3) => w.sdrop(sink, live_subs[r.below(live_subs.len())]),
                _ => {}
            }
        }
        w.settle(sink);
        sink.nontrivial();
    }
}
