#!/usr/bin/env python3
"""
tools/seed.py confirm <src_dir> <seed_id>      confirm a seeded change (patch.diff, demo.rs, meta.json) in a scratch worktree
                                               and store it as /verif/seeded/<seed_id>/
tools/seed.py run <seed_id> [PROP ...]         apply the stored patch to /repo, run ./check for the given properties
                                               (default: the property it breaks), undo the patch, record the outcome
"""
import json, os, re, shutil, subprocess, sys, time
ROOT = os.path.dirname(os.path.dirname(os.path.abspath(__file__)))
SW = "/tmp/sw"
ENV = dict(os.environ, CARGO_NET_OFFLINE="true")

def sh(cmd, cwd=None, timeout=3600):
    p = subprocess.run(cmd, cwd=cwd, shell=isinstance(cmd, str), env=ENV, stdout=subprocess.PIPE, stderr=subprocess.STDOUT, timeout=timeout)
    return p.returncode, p.stdout.decode(errors="replace")

def ensure_sw():
    if not os.path.isdir(SW):
        rc, out = sh(f"git -C /repo worktree add -q --detach {SW} HEAD")
        assert rc == 0, out
    else:
        sh("git checkout -q --detach $(git -C /repo rev-parse HEAD) && git checkout -- . && git clean -fdq -e target", cwd=SW)

def demo_crate(demo_src):
    first = demo_src.split("\n", 1)[0]
    for c in ("eyeball-im-util", "eyeball-im", "eyeball"):
        if c + "/tests" in first or f"`{c}`" in first or (c + " ") in first or first.rstrip().endswith(c):
            return c
    m = re.search(r"(eyeball-im-util|eyeball-im|eyeball)", first)
    return m.group(1) if m else "eyeball-im-util"

def passed_counts(out):
    ok = sum(int(x) for x in re.findall(r"test result: ok\. (\d+) passed", out))
    failed = sum(int(x) for x in re.findall(r"(\d+) failed", out))
    return ok, failed

def confirm(src, sid):
    patch = os.path.abspath(os.path.join(src, "patch.diff"))
    demo = open(os.path.join(src, "demo.rs")).read()
    meta = json.load(open(os.path.join(src, "meta.json")))
    crate = demo_crate(demo)
    ensure_sw()
    ran = []
    demo_path = os.path.join(SW, crate, "tests", f"demo_{sid}.rs")
    feat = " --features async-lock" if crate == "eyeball" and "async" in demo else ""
    # 1. suite with the change (demo absent)
    rc, out = sh(f"git apply {patch}", cwd=SW); assert rc == 0, "patch does not apply: " + out
    rc, out = sh("cargo test --workspace --offline --no-fail-fast 2>&1", cwd=SW)
    ok, failed = passed_counts(out)
    suite_ok = rc == 0 and failed == 0
    ran.append(f"with patch: cargo test --workspace --offline -> rc={rc}, {ok} passed, {failed} failed")
    # 2. demo with the change
    open(demo_path, "w").write(demo)
    rc1, out1 = sh(f"cargo test -p {crate}{feat} --offline --test demo_{sid} 2>&1", cwd=SW)
    ran.append(f"with patch: cargo test -p {crate}{feat} --test demo_{sid} -> rc={rc1} (expected: fails)")
    # 3. demo without the change
    sh(f"git apply -R {patch}", cwd=SW)
    rc2, out2 = sh(f"cargo test -p {crate}{feat} --offline --test demo_{sid} 2>&1", cwd=SW)
    ran.append(f"without patch: cargo test -p {crate}{feat} --test demo_{sid} -> rc={rc2} (expected: passes)")
    os.remove(demo_path)
    good = suite_ok and rc1 != 0 and rc2 == 0 and "error[" not in out1
    print(f"{sid}: suite_ok={suite_ok} demo_fails_with={rc1 != 0} demo_passes_without={rc2 == 0} -> {'CONFIRMED' if good else 'REJECTED'}")
    if not good:
        print(out[-1500:] if not suite_ok else (out1[-1500:] if rc1 == 0 or 'error[' in out1 else out2[-1500:]))
        return False
    d = os.path.join(ROOT, "seeded", sid)
    os.makedirs(d, exist_ok=True)
    shutil.copy(patch, os.path.join(d, "patch.diff"))
    open(os.path.join(d, "demo.rs"), "w").write(demo)
    json.dump({"id": sid, "property": meta.get("property"), "summary": meta.get("summary"), "needs": meta.get("needs"),
               "demo_crate": crate, "origin": "independent sub-agent given only the property text and a scratch worktree",
               "confirmed": ran, "agent_ran": meta.get("ran"), "detected_by": {}},
              open(os.path.join(d, "meta.json"), "w"), indent=1)
    return True

def run(sid, props):
    d = os.path.join(ROOT, "seeded", sid)
    meta = json.load(open(os.path.join(d, "meta.json")))
    props = props or [meta["property"]]
    rc, out = sh("git -C /repo status --porcelain --untracked-files=no")
    assert out.strip() == "", "/repo has uncommitted changes"
    rc, out = sh(f"git -C /repo apply {os.path.join(d, 'patch.diff')}")
    if rc != 0:
        rc, out = sh(f"git -C /repo apply -3 {os.path.join(d, 'patch.diff')}")
    assert rc == 0, "patch does not apply to /repo: " + out
    try:
        for p in props:
            t0 = time.time()
            rc, out = sh([os.path.join(ROOT, "check"), p, "--tier", "quick"], cwd=ROOT)
            viol = [l for l in out.split("\n") if l.startswith("VIOLATION")]
            what = ""
            if viol:
                m = re.search(r"replay=(\S+)", viol[0])
                try:
                    rp = json.load(open(m.group(1)))
                    what = rp["what"] if isinstance(rp["what"], str) else "; ".join(rp["what"])
                except Exception:
                    pass
            meta["detected_by"][p] = {"exit": rc, "line": viol[0] if viol else "", "what": what[:400], "wall_s": round(time.time() - t0, 1)}
            print(f"{sid} / {p}: exit={rc} {viol[0] if viol else 'no violation reported'}\n      {what[:300]}")
    finally:
        sh("git -C /repo checkout -- . && git -C /repo reset -q")
    json.dump(meta, open(os.path.join(d, "meta.json"), "w"), indent=1)

if __name__ == "__main__":
    if sys.argv[1] == "confirm":
        sys.exit(0 if confirm(sys.argv[2], sys.argv[3]) else 1)
    elif sys.argv[1] == "run":
        run(sys.argv[2], sys.argv[3:])
