#!/bin/bash
# tools/coverage.sh [tier] — developer tool, not a registered check: which lines of /repo's three crates do the
# correspondence engines execute? Builds the harness with -C instrument-coverage (nightly, for its llvm-tools) in a
# scratch directory, runs every engine once, prints llvm-cov's per-file table and the library lines never executed
# (Debug impls left out). A line that no engine executes is a line where no changed behaviour can be noticed.
set -e
TIER=${1:-quick}
W=$(mktemp -d /tmp/evcov.XXXXXX)
trap 'rm -rf "$W"' EXIT
B=$(dirname "$(rustc +nightly --print target-libdir)")/bin
cd "$(dirname "$0")/../harness"
RUSTFLAGS="--cfg eyeball_verif -C instrument-coverage" CARGO_TARGET_DIR=$W/target CARGO_NET_OFFLINE=true \
  cargo +nightly build --offline --quiet 2>/dev/null
for e in diff vec vconc adp obs obsasync conc own; do
  mkdir -p "$W/out_$e"
  ( LLVM_PROFILE_FILE="$W/prof/$e-%p.profraw" timeout 3000 "$W/target/debug/evh" $e --tier "$TIER" --seed 1 --out "$W/out_$e" >/dev/null 2>&1 || echo "engine $e: rc=$?" ) &
done
wait
"$B/llvm-profdata" merge -sparse "$W"/prof/*.profraw -o "$W/all.profdata"
"$B/llvm-cov" report "$W/target/debug/evh" -instr-profile="$W/all.profdata" --ignore-filename-regex='(\.cargo|rustc|rustup|harness)' 2>/dev/null \
  | awk '/\.rs / || /^TOTAL/ { printf "%-52s lines %5s missed %5s  %s\n", $1, $(NF-5), $(NF-4), $(NF-3) }' | sed 's#^repo/##'
"$B/llvm-cov" show "$W/target/debug/evh" -instr-profile="$W/all.profdata" --ignore-filename-regex='(\.cargo|rustc|rustup|harness)' 2>/dev/null > "$W/show.txt"
python3 - "$W/show.txt" <<'E'
import re, sys
cur = None
print("\nlibrary lines no engine executes (Debug impls omitted):")
for l in open(sys.argv[1]):
    m = re.match(r'^(/repo/\S+):$', l.strip())
    if m: cur = m.group(1); continue
    m = re.match(r'^\s*(\d+)\|\s*0\|(.*)$', l.rstrip('\n'))
    if m and cur and 'verif.rs' not in cur:
        t = m.group(2)
        if re.search(r'fmt\b|debug_struct|\.field\(|\.finish', t) or t.strip() in ('}', ''): continue
        print(f"  {cur.replace('/repo/', '')}:{m.group(1)}: {t.strip()[:110]}")
E
