#!/usr/bin/env python3
"""
tools/modelmut.py [--jobs N] [--max M] [--only File.lean ...] [--out DIR] [--corpus DIR]

Model-mutation audit: how tightly do the correspondence runs and the theorems pin down the hand-written Lean model?

Every mutant is ONE small syntactic change of a definition in lean/EyeballVerif/Model/*.lean (a relational operator,
an off-by-one constant, a boolean literal, take/drop, and/or ...). For each mutant, in a scratch copy of the Lean project:
  1. `lake build evdriver`      — does not build: stillborn (not counted);
  2. the mutated driver replays the operation lines of a correspondence run of every engine (corpus: the ops.txt files
     of a quick run on the unchanged tree); any output line that differs from the unmutated driver's output
     (= the implementation's output, the run having been green) kills the mutant: "killed by correspondence";
  3. otherwise `lake build EyeballVerif` — a theorem that no longer checks kills it: "killed by proof";
  4. otherwise it SURVIVES: that piece of the model is pinned down neither by the runs nor by a theorem (or the change
     is behaviour-preserving). Survivors are listed with file:line for inspection.

A developer tool (like tools/coverage.sh): it is not part of any registered check; its latest summary is quoted in DESIGN.md.
Scratch copies live under /tmp/mm and are removed at the end.
"""
import argparse, json, os, re, shutil, subprocess, sys, time
from concurrent.futures import ThreadPoolExecutor

ROOT = os.path.dirname(os.path.dirname(os.path.abspath(__file__)))
LEAN = os.path.join(ROOT, "lean")
ENGINE_OF_PROP = {"diff": "C18", "vec": "C05", "vstep": "C05", "adp": "C09", "obs": "C01", "conc": "C01", "obsasync": "C16", "own": "C20"}

RULES = [
    (r" < ", " ≤ ", "lt->le"), (r" ≤ ", " < ", "le->lt"),
    (r" \+ 1\b", " + 2", "+1->+2"), (r" - 1\b", " - 0", "-1->-0"),
    (r"\btrue\b", "false", "true->false"), (r"\bfalse\b", "true", "false->true"),
    (r" && ", " || ", "and->or"), (r" \|\| ", " && ", "or->and"),
    (r"\.take ", ".drop ", "take->drop"), (r"\.drop ", ".take ", "drop->take"),
    (r" ≠ ", " = ", "ne->eq"), (r" == ", " != ", "beq->bne"),
    (r"\.isEmpty\b", ".isEmpty.not", "isEmpty->not"),
    (r" \+\+ \[", " ++ [] ++ [", None),  # placeholder (never used: None tag)
]
RULES = [r for r in RULES if r[2]]


def code_mask(src):
    """True for characters outside comments (/- -/ nested, -- to end of line) and outside string literals"""
    mask = [True] * len(src)
    i, depth, n = 0, 0, len(src)
    while i < n:
        if src.startswith("/-", i):
            depth += 1; mask[i] = mask[i + 1] = False; i += 2; continue
        if depth and src.startswith("-/", i):
            depth -= 1; mask[i] = mask[i + 1] = False; i += 2; continue
        if depth:
            mask[i] = False; i += 1; continue
        if src.startswith("--", i):
            while i < n and src[i] != "\n": mask[i] = False; i += 1
            continue
        if src[i] == '"':
            mask[i] = False; i += 1
            while i < n and src[i] != '"':
                mask[i] = False
                if src[i] == "\\": i += 1; mask[min(i, n - 1)] = False
                i += 1
            if i < n: mask[i] = False
            i += 1; continue
        i += 1
    return mask


def mutants_of(path):
    src = open(path).read()
    mask = code_mask(src)
    out = []
    for pat, rep, tag in RULES:
        for m in re.finditer(pat, src):
            if not all(mask[m.start():m.end()]): continue
            line = src.count("\n", 0, m.start()) + 1
            ltxt = src.split("\n")[line - 1]
            # skip signatures / pattern heads where the change cannot compile or is not behaviour: `| fuel + 1, ...`, `deriving`
            if re.match(r"\s*\|[^=]*=>", ltxt) and m.start() - (src.rfind("\n", 0, m.start()) + 1) < ltxt.find("=>"): continue
            if ltxt.strip().startswith(("deriving", "import", "namespace", "end ")): continue
            new = src[:m.start()] + rep + src[m.end():]
            out.append({"file": os.path.relpath(path, LEAN), "line": line, "rule": tag, "text": ltxt.strip()[:140], "new": new})
    return out


def sh(cmd, cwd, timeout, stdin=None, stdout=None):
    try:
        p = subprocess.run(cmd, cwd=cwd, stdin=stdin, stdout=stdout or subprocess.PIPE, stderr=subprocess.STDOUT, timeout=timeout)
        return p.returncode, (p.stdout or b"").decode(errors="replace") if stdout is None else ""
    except subprocess.TimeoutExpired:
        return 124, "timeout"


def judge(mut, wdir, corpus, proofs):
    path = os.path.join(wdir, mut["file"])
    orig = open(path).read()
    t0 = time.time()
    try:
        open(path, "w").write(mut["new"])
        rc, out = sh(["lake", "build", "evdriver"], wdir, 600)
        if rc != 0:
            return "stillborn", "", time.time() - t0
        drv = os.path.join(wdir, ".lake/build/bin/evdriver")
        for eng in sorted(os.listdir(corpus)):
            if not eng.endswith(".ops"): continue
            name = eng[:-4]
            outp = os.path.join(wdir, f".mm_{name}.out")
            with open(os.path.join(corpus, eng), "rb") as fin, open(outp, "wb") as fo:
                rc, _ = sh([drv], wdir, 900, stdin=fin, stdout=fo)
            ref = os.path.join(corpus, name + ".ref")
            if rc != 0 or subprocess.run(["cmp", "-s", outp, ref]).returncode != 0:
                os.remove(outp)
                return "killed-by-correspondence", name, time.time() - t0
            os.remove(outp)
        if not proofs:
            return "survived-correspondence", "", time.time() - t0
        rc, out = sh(["lake", "build", "EyeballVerif"], wdir, 2400)
        if rc != 0:
            mods = re.findall(r"✖ \[\d+/\d+\] Building (\S+)", out)
            return "killed-by-proof", ",".join(sorted(set(mods))[:4]), time.time() - t0
        return "SURVIVED", "", time.time() - t0
    finally:
        open(path, "w").write(orig)


def main():
    ap = argparse.ArgumentParser()
    ap.add_argument("--jobs", type=int, default=6)
    ap.add_argument("--max", type=int, default=0)
    ap.add_argument("--only", nargs="*", default=[])
    ap.add_argument("--out", default=os.path.join(ROOT, "work", "modelmut"))
    ap.add_argument("--corpus", default="")
    ap.add_argument("--no-proofs", action="store_true")
    a = ap.parse_args()
    os.makedirs(a.out, exist_ok=True)
    corpus = a.corpus or "/tmp/mm/corpus"
    if not a.corpus:
        os.makedirs(corpus, exist_ok=True)
        drv = os.path.join(LEAN, ".lake/build/bin/evdriver")
        for eng, prop in ENGINE_OF_PROP.items():
            src = os.path.join(ROOT, "work", prop, eng, "ops.txt")
            if not os.path.exists(src):
                print("no corpus for", eng, "(run ./check", prop, "first)"); continue
            shutil.copy(src, os.path.join(corpus, eng + ".ops"))
            with open(src, "rb") as fin, open(os.path.join(corpus, eng + ".ref"), "wb") as fo:
                subprocess.run([drv], stdin=fin, stdout=fo, check=True)
    files = sorted(os.path.join(LEAN, "EyeballVerif/Model", f) for f in os.listdir(os.path.join(LEAN, "EyeballVerif/Model")) if f.endswith(".lean"))
    if a.only: files = [f for f in files if os.path.basename(f) in a.only]
    muts = []
    for f in files: muts += mutants_of(f)
    if a.max:
        step = max(1, len(muts) // a.max)
        muts = muts[::step][:a.max]
    print(len(muts), "mutants over", len(files), "model files;", a.jobs, "workers", flush=True)
    wdirs = []
    for k in range(a.jobs):
        w = f"/tmp/mm/w{k}"
        shutil.rmtree(w, ignore_errors=True)
        shutil.copytree(LEAN, w, symlinks=True)
        wdirs.append(w)
    import queue
    free = queue.Queue()
    for w in wdirs: free.put(w)
    results = []

    def work(m):
        w = free.get()
        try:
            verdict, detail, dt = judge(m, w, corpus, not a.no_proofs)
        finally:
            free.put(w)
        r = {k: m[k] for k in ("file", "line", "rule", "text")}
        r.update(verdict=verdict, detail=detail, seconds=round(dt, 1))
        print(f"{r['verdict']:26s} {r['file']}:{r['line']} [{r['rule']}] {detail}  ({dt:.0f}s)   {r['text'][:80]}", flush=True)
        return r

    with ThreadPoolExecutor(max_workers=a.jobs) as ex:
        results = list(ex.map(work, muts))
    summ = {}
    for r in results: summ[r["verdict"]] = summ.get(r["verdict"], 0) + 1
    per_file = {}
    for r in results:
        d = per_file.setdefault(r["file"], {})
        d[r["verdict"]] = d.get(r["verdict"], 0) + 1
    json.dump({"summary": summ, "per_file": per_file, "mutants": results}, open(os.path.join(a.out, "report.json"), "w"), indent=1)
    print("SUMMARY", summ)
    for f, d in per_file.items(): print("  ", f, d)
    for w in wdirs: shutil.rmtree(w, ignore_errors=True)


if __name__ == "__main__":
    main()
