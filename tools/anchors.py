#!/usr/bin/env python3
"""tools/anchors.py — record the sources the model is validated against (run on the unchanged tree after every commit to /repo):
sha256 per crate of /repo/<crate>/src/**/*.rs into checklib/anchors.json. `./check` compares the working tree with it: a crate
that differs is not a violation, it makes the quick tier run two further seeds of every engine that exercises that crate."""
import json, os, subprocess, sys, importlib.machinery, importlib.util
ROOT = os.path.dirname(os.path.dirname(os.path.abspath(__file__)))
loader = importlib.machinery.SourceFileLoader("chk", os.path.join(ROOT, "check"))
spec = importlib.util.spec_from_loader("chk", loader); chk = importlib.util.module_from_spec(spec); loader.exec_module(chk)
assert subprocess.check_output(["git", "-C", "/repo", "status", "--porcelain", "--untracked-files=no"]).decode().strip() == "", "/repo has uncommitted changes"
head = subprocess.check_output(["git", "-C", "/repo", "rev-parse", "--short", "HEAD"]).decode().strip()
json.dump({"repo_head": head, "crates": chk.crate_hashes()}, open(os.path.join(ROOT, "checklib", "anchors.json"), "w"), indent=1)
print("anchors recorded at", head)
