#!/usr/bin/env python3
"""tools/mkprompts.py <suffix> [PROP ...] — write /tmp/mut/<PROP><suffix>.prompt.txt for a further round of seeded
changes by independent sub-agents: property text + a hint towards less explored code + the summaries of the changes
already stored under /verif/seeded for that property (so that agents do not repeat them). Nothing else from /verif is given."""
import json, os, sys, glob
ROOT = os.path.dirname(os.path.dirname(os.path.abspath(__file__)))
HINT = {
 "C01": "Prefer mechanisms in the write/read guards (ObservableWriteGuard set/update/take/update_if, ObservableReadGuard), set_if_hash_not_eq, Subscriber::clone / clone_reset / reset / subscribe_reset, Observable (unique) code paths that differ from SharedObservable, or the interplay of two different setters.",
 "C02": "Prefer mechanisms in waker bookkeeping that need three or more subscribers, a waker that changes between polls of one subscriber, wakers registered while the observable is being closed, or a subscriber cloned / dropped / reset while pending.",
 "C03": "Prefer mechanisms around WeakObservable (downgrade/upgrade), the strong-count bookkeeping of SharedObservable clone/drop, Observable::into_shared / into_inner, assignment over an existing handle, and the unique Observable's Drop.",
 "C04": "Prefer mechanisms that need two or three threads: lock scopes in SharedObservable (read/get/write/set/update/subscribe), the order of value write vs. version bump vs. wake, try-lock fallbacks, and Subscriber methods other than poll (get, next_now, clone).",
 "C05": "Prefer mechanisms in ObservableVector::append / insert / remove / pop_* / truncate edge cases, ObservableVectorEntry (set/remove through entry and entries) and the transaction-side twins of those, and the unbatched stream's handling of multi-diff messages.",
 "C06": "Prefer mechanisms in the lag handling of BOTH stream flavours (handle_lag, the Lagged arms, what the Reset carries, what is skipped after a lag), capacity edge cases (capacity 1, exactly-full buffer) and lag that happens while a multi-diff message is being handed out.",
 "C07": "Prefer mechanisms in rollback followed by further operations, commit after clear, entry/entries/for_each inside a transaction, transactions on vectors with no subscriber followed by subscription, and Drop of a transaction that was partly used.",
 "C08": "Prefer mechanisms in how the two stream flavours treat channel closure with messages still buffered, closure combined with lag, and subscribers created just before the drop.",
 "C09": "Prefer mechanisms in Skip and Tail (less so Head): dynamic count/limit streams changing several times, limits 0 and larger than the source, Reset/Truncate/Append arms, and PopFront/PopBack/Remove at the window boundary.",
 "C10": "Prefer mechanisms in the index bookkeeping of Filter/FilterMap (filtered_indices) for Insert/Remove/Set at boundaries, Append with partial matches, Truncate and Reset, and filter_map closures that change the value.",
 "C11": "Prefer mechanisms in Sort/SortBy/SortByKey for Set (moving an element), Insert/Remove with equal keys (ties), PushFront/PushBack with duplicates, Append of several items, Reset, and the initial sorting.",
 "C12": "Prefer mechanisms that only show in a chain of two or three DIFFERENT adapters (e.g. filter→sort→head, skip→tail, sort→skip), in what an adapter emits as diffs (not only its own view), including Truncate/Reset/Clear emitted to the next stage.",
 "C13": "Prefer mechanisms in the batched flavour of each adapter (Vec<VectorDiff> items): batches that become empty, batches split or merged, limit-stream changes arriving between batches, and ordering inside a batch.",
 "C14": "Prefer mechanisms where an adapter with TWO inputs (dynamic Head/Tail/Skip: diff stream and limit stream) or a chain returns Pending: which inputs were polled before returning Pending, early returns, ReusableBoxFuture usage, and end-of-stream of one input.",
 "C15": "Prefer mechanisms in Tail and Head with a FIXED limit: the order in which one source diff is expanded into several output diffs (push-then-pop vs pop-then-push), Insert/PushFront/Append arms at exactly-full windows, and Reset.",
 "C16": "Prefer mechanisms in the async-lock flavour only (cfg(feature = \"async-lock\")): Subscriber<_, AsyncLock> poll state machine, next/next_ref/next_now, write guard futures, set_if_not_eq / update_if through AsyncLock, cancellation of a pending future.",
 "C17": "Prefer mechanisms in the return values of pop_front/pop_back/set/remove, index checks and panics (insert at len+1, set/remove at len), ObservableVectorEntry::index / set / remove, entries()/for_each early exit, and the transaction twins.",
 "C18": "Prefer mechanisms in VectorDiff::map arms and VectorDiff::apply arms that differ for unusual inputs (empty Append, Truncate beyond length, Reset with empty values, index at the end).",
 "C19": "Prefer mechanisms in observable_count / subscriber_count / strong_count / weak_count for clones, weak references, subscribers created by clone / clone_reset, subscribers dropped while pending, and the async-lock flavour's extra references.",
 "C20": "Prefer mechanisms in ReusableBoxFuture (set/try_set/poll/Drop, layout checks), mem::replace/take/forget/ManuallyDrop uses, into_inner / into_shared, panics inside user closures (update, update_if) and subscriber streams dropped with messages buffered.",
}
NOTE = """Note: the repository contains verification hooks behind `--cfg eyeball_verif` (module eyeball::verif, pause points). Ignore them: do not remove or rely on them; they are inactive in normal builds.
For properties about threads, a demonstration may use std::thread, barriers, sleeps or loops to make the failing interleaving likely, but it must pass reliably on the unmodified tree (run it at least 5 times) and fail reliably (or at least in most runs) with your change.
"""
def main():
    suffix = sys.argv[1]; want = sys.argv[2:]
    tmpl = open(os.path.join(ROOT, "tools", "seed_prompt.tmpl")).read()
    os.makedirs("/tmp/mut/out", exist_ok=True)
    for l in open(os.path.join(ROOT, "properties.jsonl")):
        p = json.loads(l); pid = p["id"]
        if want and pid not in want: continue
        used = []
        for m in sorted(glob.glob(os.path.join(ROOT, "seeded", "*", "meta.json"))):
            mm = json.load(open(m))
            if mm.get("property") == pid and mm.get("summary"): used.append("  - " + mm["summary"][:300])
        prop = f"{pid} — {p['title']}\n\nStatement: {p['statement']}\n\nQuantified over: {p['quantifier']['text']}\n\nRelevant files: {', '.join(p['anchors']['files'])}\n\n{HINT[pid]}\n\n"
        if used: prop += "The following ideas have ALREADY been used by somebody else; do not repeat them or close variants of them (pick other functions, other match arms, other mechanisms):\n" + "\n".join(used) + "\n\n"
        prop += NOTE
        ident = pid + suffix
        out = tmpl.replace("@ID@", ident).replace("@PROP@", prop).replace("@N@", "3").replace("@PID@", pid)
        open(f"/tmp/mut/{ident}.prompt.txt", "w").write(out)
        print(ident, len(used), "used ideas,", len(out), "chars")
main()
