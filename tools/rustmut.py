#!/usr/bin/env python3
"""
tools/rustmut.py [--jobs N] [--max M] [--only path-substring ...] [--out DIR]

Source-mutation audit of the CHECKS: how many small wrong edits of jplatte/eyeball that still compile and still pass the
repository's own test suite do the quick checks report?  (The seeded changes of DESIGN §9 are hand-made and few; this is
the same experiment done mechanically and at scale.)

Every mutant is ONE token-level change in a library source file (relational and equality operators, off-by-one constants,
boolean literals, && / ||, a removed `!`). Each worker owns a private copy of /repo (a git worktree) and of /verif (with the
harness's path dependencies pointing at its own repo copy). For a mutant:
  1. `cargo test -p <crate> --offline`            — fails to build or a test fails: "killed by the suite" (not interesting);
  2. the quick checks of the properties that crate can affect, fastest first, stop at the first VIOLATION: "killed by C<nn>";
  3. no check reports anything: SURVIVOR — either the change does not alter behaviour (equivalent mutant), or a gap.
A developer tool; not a registered check. The summary of the latest run is quoted in DESIGN.md.
"""
import argparse, json, os, queue, re, shutil, subprocess, sys, time
from concurrent.futures import ThreadPoolExecutor

ROOT = os.path.dirname(os.path.dirname(os.path.abspath(__file__)))
CHECKS = {
    "eyeball": ["C20", "C16", "C19", "C03", "C01", "C02", "C04"],
    "eyeball-im": ["C18", "C17", "C07", "C20", "C05", "C06", "C08", "C13"],
    "eyeball-im-util": ["C15", "C10", "C11", "C12", "C14", "C09", "C13"],
}
RULES = [
    (r" < ", " <= ", "lt->le"), (r" <= ", " < ", "le->lt"), (r" > ", " >= ", "gt->ge"), (r" >= ", " > ", "ge->gt"),
    (r" == ", " != ", "eq->ne"), (r" != ", " == ", "ne->eq"),
    (r" \+ 1\b", " + 2", "+1->+2"), (r" - 1\b", " - 0", "-1->-0"), (r" \+ 1\b", "", "+1->"), (r" - 1\b", "", "-1->"),
    (r"\btrue\b", "false", "true->false"), (r"\bfalse\b", "true", "false->true"),
    (r" && ", " || ", "and->or"), (r" \|\| ", " && ", "or->and"),
    (r"\bif !", "if ", "drop-not"), (r"\.saturating_sub\(1\)", ".saturating_sub(0)", "satsub1->0"),
    (r"push_back", "push_front", "push_back->front"), (r"push_front", "push_back", "push_front->back"),
    (r"pop_back", "pop_front", "pop_back->front"), (r"pop_front", "pop_back", "pop_front->back"),
    (r"PushBack", "PushFront", "PushBack->Front"), (r"PushFront", "PushBack", "PushFront->Back"),
    (r"PopBack", "PopFront", "PopBack->Front"), (r"PopFront", "PopBack", "PopFront->Back"),
    (r"Ordering::Less", "Ordering::Greater", "Less->Greater"), (r"Ordering::Greater", "Ordering::Less", "Greater->Less"),
    (r" \+= ", " -= ", "+=->-="), (r" -= ", " += ", "-=->+="), (r"\.\.=", "..", "..=->.."),
    (r"\.take\(", ".skip(", "take->skip"), (r"\.skip\(", ".take(", "skip->take"),
    (r"\b0\b", "1", "0->1"),
    (r"\.is_empty\(\)", ".is_empty() == false", "is_empty->not"), (r"\.min\(", ".max(", "min->max"), (r"\.max\(", ".min(", "max->min"),
]
RULES = [r for r in RULES if r[2]]
ENV = dict(os.environ, CARGO_NET_OFFLINE="true")
DELETE = False


def code_mask(src):
    mask = [True] * len(src)
    i, n, depth = 0, len(src), 0
    while i < n:
        if src.startswith("/*", i): depth += 1; mask[i] = mask[i + 1] = False; i += 2; continue
        if depth and src.startswith("*/", i): depth -= 1; mask[i] = mask[i + 1] = False; i += 2; continue
        if depth: mask[i] = False; i += 1; continue
        if src.startswith("//", i):
            while i < n and src[i] != "\n": mask[i] = False; i += 1
            continue
        if src[i] == '"':
            mask[i] = False; i += 1
            while i < n and src[i] != '"':
                mask[i] = False
                if src[i] == "\\": i += 1; mask[min(i, n - 1)] = False
                i += 1
            if i < n: mask[i] = False
            i += 1; continue
        i += 1
    return mask


def mutants():
    out = []
    for crate in CHECKS:
        base = os.path.join("/repo", crate, "src")
        for d, _, names in sorted(os.walk(base)):
            for nme in sorted(names):
                if not nme.endswith(".rs") or nme == "verif.rs": continue
                path = os.path.join(d, nme)
                src = open(path).read()
                mask = code_mask(src)
                lines = src.split("\n")
                # skip test modules, cfg(verif) lines, attributes, tracing calls, debug impls
                for pat, rep, tag in RULES:
                    for m in re.finditer(pat, src):
                        if not all(mask[m.start():m.end()]): continue
                        ln = src.count("\n", 0, m.start())
                        lt = lines[ln].strip()
                        if lt.startswith("#[") or "eyeball_verif" in lt or "tracing" in lt or "debug_assert" in lt or "fmt::" in lt: continue
                        if ln > 0 and "eyeball_verif" in lines[ln - 1]: continue
                        out.append({"crate": crate, "file": os.path.relpath(path, "/repo"), "line": ln + 1, "rule": tag,
                                    "text": lt[:140], "start": m.start(), "end": m.end(), "rep": rep})
                # statement deletion: a whole line that is one simple statement (a call or an assignment ending in `;`)
                if not DELETE: continue
                pos = 0
                for ln, line in enumerate(lines):
                    lt = line.strip()
                    start = pos; pos += len(line) + 1
                    if not lt.endswith(";") or lt.startswith(("let ", "use ", "pub ", "return", "//", "#[", "type ", "const ", "static ", "break", "continue", "}", "fn ", "impl")): continue
                    if "eyeball_verif" in lt or "tracing" in lt or "debug_assert" in lt or "unreachable" in lt or "panic!" in lt: continue
                    if ln > 0 and ("eyeball_verif" in lines[ln - 1] or "tracing" in lines[ln - 1]): continue
                    if lt.count("(") != lt.count(")") or lt.count("{") != lt.count("}") or not ("(" in lt or "=" in lt) or lt.startswith("mod "): continue
                    if not all(mask[start + len(line) - len(line.lstrip()):start + len(line)]): continue
                    out.append({"crate": crate, "file": os.path.relpath(path, "/repo"), "line": ln + 1, "rule": "delete-stmt",
                                "text": lt[:140], "start": start, "end": start + len(line), "rep": ""})
    return out


def sh(cmd, cwd, timeout):
    # own process group: on a time-out the whole tree goes (a mutant can make a test binary loop forever)
    import signal
    p = subprocess.Popen(cmd, cwd=cwd, env=ENV, stdout=subprocess.PIPE, stderr=subprocess.STDOUT, start_new_session=True)
    try:
        out, _ = p.communicate(timeout=timeout)
        return p.returncode, out.decode(errors="replace")
    except subprocess.TimeoutExpired:
        try: os.killpg(p.pid, signal.SIGKILL)
        except Exception: pass
        p.wait()
        return 124, "timeout"


def setup_worker(k):
    w = f"/tmp/mr/w{k}"
    subprocess.run(["git", "-C", "/repo", "worktree", "remove", "--force", w + "/repo"], stdout=subprocess.DEVNULL, stderr=subprocess.DEVNULL)
    shutil.rmtree(w, ignore_errors=True)
    os.makedirs(w)
    subprocess.run(["git", "-C", "/repo", "worktree", "add", "-q", "--detach", w + "/repo", "HEAD"], check=True)
    v = w + "/verif"
    shutil.copytree(ROOT, v, symlinks=True, ignore=shutil.ignore_patterns(".git", "work", "seeded", "replays", "evidence", "__pycache__"))
    for f in ("harness/Cargo.toml",):
        p = os.path.join(v, f); s = open(p).read().replace('"/repo/', f'"{w}/repo/'); open(p, "w").write(s)
    # `check` hashes /repo for the source anchors: point it at the copy (anchors then differ -> extra seeds, as in real use)
    p = os.path.join(v, "check"); s = open(p).read().replace('os.path.join("/repo", c, "src")', f'os.path.join("{w}/repo", c, "src")'); open(p, "w").write(s)
    # Cargo.lock of the harness is reused; make sure it builds once
    sh(["cargo", "build", "--offline", "--quiet"], v + "/harness", 1800)
    return w


def judge(m, w):
    t0 = time.time()
    path = os.path.join(w, "repo", m["file"])
    orig = open(path).read()
    try:
        open(path, "w").write(orig[:m["start"]] + m["rep"] + orig[m["end"]:])
        feat = ["--features", "async-lock"] if m["crate"] == "eyeball" else []
        rc, out = sh(["cargo", "test", "-p", m["crate"], "--offline", "--quiet"] + feat, w + "/repo", 900)
        if rc != 0:
            return ("stillborn" if "error[" in out or "error:" in out and "test result" not in out else "killed-by-suite"), "", time.time() - t0
        if m["crate"] != "eyeball-im-util":
            # the dependants' tests are part of the pinned suite too
            dep = {"eyeball": [], "eyeball-im": ["eyeball-im-util"]}[m["crate"]]
            for d in dep:
                rc, out = sh(["cargo", "test", "-p", d, "--offline", "--quiet"], w + "/repo", 900)
                if rc != 0: return "killed-by-suite", d, time.time() - t0
        for c in CHECKS[m["crate"]]:
            rc, out = sh([os.path.join(w, "verif", "check"), c, "--tier", "quick"], w + "/verif", 1200)
            if rc != 0 or "VIOLATION" in out:
                nfi = "no-failing-input-found" in out
                return "killed-by-check", c + (" (nfi)" if nfi else ""), time.time() - t0
        return "SURVIVED", "", time.time() - t0
    finally:
        open(path, "w").write(orig)


def main():
    ap = argparse.ArgumentParser()
    ap.add_argument("--jobs", type=int, default=5)
    ap.add_argument("--max", type=int, default=0)
    ap.add_argument("--only", nargs="*", default=[])
    ap.add_argument("--out", default=os.path.join(ROOT, "work", "rustmut"))
    ap.add_argument("--rules", default="token", help="token | delete | all")
    a = ap.parse_args()
    os.makedirs(a.out, exist_ok=True)
    global DELETE
    DELETE = a.rules in ("delete", "all")
    muts = mutants()
    if a.rules == "delete": muts = [m for m in muts if m["rule"] == "delete-stmt"]
    if a.only: muts = [m for m in muts if any(o in m["file"] for o in a.only)]
    if a.max:
        step = max(1, len(muts) // a.max); muts = muts[::step][:a.max]
    print(len(muts), "mutants;", a.jobs, "workers", flush=True)
    free = queue.Queue()
    with ThreadPoolExecutor(max_workers=a.jobs) as ex:
        for w in ex.map(setup_worker, range(a.jobs)): free.put(w)

    def work(m):
        w = free.get()
        try: verdict, detail, dt = judge(m, w)
        finally: free.put(w)
        r = {k: m[k] for k in ("crate", "file", "line", "rule", "text")}
        r.update(verdict=verdict, detail=detail, seconds=round(dt, 1))
        print(f"{verdict:16s} {detail:10s} {m['file']}:{m['line']} [{m['rule']}] ({dt:.0f}s)  {m['text'][:90]}", flush=True)
        return r

    with ThreadPoolExecutor(max_workers=a.jobs) as ex:
        results = list(ex.map(work, muts))
    summ = {}
    for r in results: summ[r["verdict"]] = summ.get(r["verdict"], 0) + 1
    json.dump({"summary": summ, "mutants": results}, open(os.path.join(a.out, "report.json"), "w"), indent=1)
    print("SUMMARY", summ)
    for k in range(a.jobs):
        subprocess.run(["git", "-C", "/repo", "worktree", "remove", "--force", f"/tmp/mr/w{k}/repo"], stdout=subprocess.DEVNULL, stderr=subprocess.DEVNULL)
        shutil.rmtree(f"/tmp/mr/w{k}", ignore_errors=True)


if __name__ == "__main__":
    main()
