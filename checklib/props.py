"""Per-property specification used by ./check and by gen_manifest.py: theorem modules, engines, evidence texts."""

KERNEL = ("Lean 4.33.0 kernel (thorough tier: compiled modules re-checked by leanchecker); axioms allowed: propext, "
          "Classical.choice, Quot.sound — audited per theorem with #print axioms on every run; no sorry/admit/own axioms/native_decide (token scan on every run)")
CORR = ("correspondence check (differential testing, not proof): harness generators/printers (Rust, /verif/harness), Lean driver "
        "parser (/verif/lean/Main.lean, EyeballVerif/Driver), line diff in ./check; it validates the hand-written model only on the inputs it runs")
IMBL = ("imbl::Vector modelled as a mathematical sequence (List) with the API semantics read from imbl 5.0.0 "
        "(pop on empty = no-op, truncate beyond length = no-op, insert/set/remove panic out of range)")
TOKIO_BC = ("tokio::sync::broadcast modelled as an append-only log with a retained window of next_power_of_two(capacity) messages, "
            "a cursor per receiver (Lagged moves it to the oldest retained message, Closed only after the window is drained, send "
            "without receivers stores nothing, send and sender-drop wake parked receivers) — read from tokio 1.53.1, validated by the runs over capacities 1..8,16,64")
ELEM = "element type instantiated to u64 / Nat in the correspondence runs (the theorems are polymorphic in the element type)"

VEC_RULE = ("engine vec — exhaustive: (A) initial contents of length 0..3 x every mutator with every index 0..len+2, sequences of length 1 and 2 "
            "(thorough: 3), plain+batched subscriber; (B) every transaction body of length <=2 (thorough 3) over 16 ops x 5 ways of ending x with/without "
            "subscribers; (E) entry(i) for every index 0..len+1, unused / set / remove, on the vector and in a transaction; (LT) 120 (thorough 600) transactions of 17..40 operations at capacity 16, of 30..74 at capacities 1 and 2; (C) capacities {1,2,3,4,5,7,8} x 0..B+3 unpolled updates x transactions x vector dropped or not x pre-polled or not; (D) every "
            "keep/set/remove/set-remove/stop decision sequence over vectors of length <=3 (thorough 4), direct and in a transaction; random: 2500 (thorough 150000) "
            "histories of 10..50 (80) steps with up to 4 subscribers of both flavours created/dropped/polled at random, capacities {1,2,3,5,7,16,64}, entries, "
            "transactions, final drop of the vector; the model's ghost replica of every polled subscriber is compared with the harness's strict replica. Engine vstep (C05/C06/C08) — poll_next taken apart into its receive operations with the receive hook: exhaustive over capacities {1,2,4} x flavour x 0..B+2 messages queued before the poll x what is injected after each of the first 3 (thorough 4) receive operations (nothing / 1 update / 2 updates / B+1 updates = lag / a two-operation transaction / the drop of the vector), 6912 cases; random: 1500 (thorough 60000) histories with up to 3 subscribers, random operations between polls and random injections after up to 6 receive operations of a poll; every line compared with the fine-grained Lean model SOV.micro. Engine vconc (C05/C06/C08) — a writer thread against a plain and a "
            "batched stream polled on two other threads, capacities {1,2,3,4,8}, 200..5000 updates, 3000 (thorough 40000) rounds, oracles only. Every case is non-trivial (it mutates and delivers); distinct = distinct (ops, results) traces.")

def vec_prop(mods, expl, extra_assump=(), engines=None):
    return {
        "level": "proof",
        "lean_modules": mods,
        "engines": engines or [{"name": "vec"}],
        "rule": VEC_RULE,
        "exhaustive": True,
        "trusted_base": [KERNEL, CORR, IMBL, TOKIO_BC],
        "assumptions": [ELEM, "single-threaded histories (ObservableVector is not Sync-shared in the model; &mut self API)"] + list(extra_assump),
        "explanation": expl,
    }

ADP_RULE = ("engine adp — exhaustive: (A) Head/Tail/Skip x source length 0..4 (thorough 5) x limit/count 0..5 (6) x every valid source operation "
            "(all indices, Append payloads of 0..3 items) x both stream flavours; (B) every limit/count change (old,new,len) for the dynamic adapters incl. the first value of "
            "a purely dynamic one, and the 2-step combinations diff;limit / limit;diff / limit;limit before one poll; (C) Filter/FilterMap: every pass/fail mask over the items "
            "present and the inserted values x every valid operation; (D) Sort/SortBy/SortByKey: every source of length <=3 (4) over a 3-value alphabet with ties x 4 comparators x "
            "every valid operation except Truncate; (L) bursts of 31..100 updates invisible to the stage queued before one poll (capacity 128) x 10 stage lists x 3 endings; (KF) confirmation cases of the known findings; random: 4000 (thorough 200000) histories over random chains of 1..3 stages "
            "(static/dynamic/dynamic-with-initial head/tail/skip, filter, filter_map, sort*), transactions, lag-inducing capacities, limit changes and stream ends, polls at random or "
            "after every single operation (wake check). Per-stage transparent taps feed the implementation-side oracles. Every case is non-trivial; distinct = distinct traces.")

def adp_prop(mods, expl, extra_assump=(), engines=None):
    return {
        "level": "proof",
        "lean_modules": mods,
        "engines": engines or [{"name": "adp"}],
        "rule": ADP_RULE,
        "exhaustive": True,
        "trusted_base": [KERNEL, CORR, IMBL, TOKIO_BC,
                         "limit/count streams modelled as closable queues of announced values (harness uses the same kind of stream; an eyeball Subscriber used as limit stream is the special case of a queue of length <= 1)"],
        "assumptions": [ELEM, "user closures (predicates, mappings, comparators, keys) drawn from shared tables in the correspondence runs; the theorems quantify over all functions",
                        "incoming diffs are validOn the adapter's buffered vector (what ObservableVector and the other adapters emit: strict applicability, Truncate only when it shortens)"] + list(extra_assump),
        "explanation": expl,
    }

PROPS = {
    "C18": {
        "level": "proof",
        "lean_modules": ["EyeballVerif.Props.C18"],
        "engines": [{"name": "diff"}],
        "rule": ("exhaustive: every vector of length <= 4 (thorough 6) over {1,2} x every diff kind with every index 0..len+2 and "
                 "payloads of length 0..3, each also under 4 element mappings; size classes around imbl's 64-item chunk boundaries: 18 vector lengths (0-5, 31-33, 63-66, 127-130, 200) x 11 payload "
                 "lengths for Append/Reset and 7 boundary indices for the indexed kinds, items position-dependent; random: 800 (thorough 100000) vectors of length 0..7 or 50..150 with payloads up to 300. "
                 "A case is non-trivial when apply does not panic; distinct = distinct (ops, results) traces."),
        "exhaustive": True,
        "trusted_base": [KERNEL, CORR, IMBL],
        "assumptions": [ELEM, "mappings drawn from a table of 4 functions in the correspondence runs (the theorem quantifies over all functions)"],
        "explanation": "theorems c18_* are universally quantified over diffs, vectors and mappings; the correspondence run ties Diff.apply/Diff.map to VectorDiff::apply/map",
        "claim": ("Lean 4 theorems c18_map_apply / c18_map_id / c18_apply_panics_iff / c18_apply_get / c18_apply_length, universally quantified over diffs, "
                  "vectors and mappings, about the model Diff.apply / Diff.map; the model is tied to VectorDiff::apply/map by an exhaustive small-scope + "
                  "random large-vector differential run on every check."),
        "technique": "Lean 4 proof (case analysis + list lemmas) + model/implementation correspondence",
        "design_ref": "DESIGN.md §6 C18",
    },
    "C17": dict(vec_prop(["EyeballVerif.Props.C17"],
        "c17_exec_plain/c17_direct/c17_txn_op: every mutator = the plain-vector call (contents, return value, panic condition); c17_for_each: the entries loop meets the "
        "list-level traversal specification travSpec for every vector and decision sequence; c17_visits_each_once / c17_first_index spell the specification out"),
        claim=("Lean 4 theorems: every ObservableVector/transaction mutator returns and stores exactly what the plain-vector operation does and panics exactly when out of range "
               "(c17_exec_plain, c17_direct, c17_txn_op); the entries()/for_each loop, for every vector and every per-element decision sequence, equals the list-level "
               "specification (c17_for_each, by induction with an explicit loop invariant), which visits each element once in order, reports the current index and leaves the rest "
               "untouched on early exit. Tied to the code by exhaustive + random differential runs (all indices incl. out of range with catch_unwind, all decision sequences on vectors <= 3)."),
        technique="Lean 4 proof (induction over the traversal loop, case analysis per mutator) + model/implementation correspondence",
        design_ref="DESIGN.md §6 C17"),
    "C05": dict(vec_prop(["EyeballVerif.Props.C05", "EyeballVerif.Props.StreamReach", "EyeballVerif.Props.StreamStep", "EyeballVerif.Props.StreamAtomic", "EyeballVerif.Lemmas.StepInv"],
        "c05_replay_inv (at every reachable state — any capacity, any finite sequence of updates, traversals, transactions, subscriptions, drops and polls — every live receiver's replica is defined and replaying what the channel still owes it yields the current contents), c05_delivered_applicable, c05_caught_up_equal, c05_never_panics; c05_exec_faithful: for every mutator and contents, the recorded diff replayed strictly on the contents before gives the contents after; no diff only if nothing changed; every diff is validOn the contents. Fine-grained (Props/StreamStep, Lemmas/StepInv): the same at the granularity of single receive operations — poll_next is a sequence of recv()/try_recv() operations between which the writer (another thread) may publish, commit or be dropped; the invariant StInv (VInv with the replica following the cursor + one clause per phase: drain / inside handle_lag) is preserved by every receive operation (sinv_micro) and every other event (sinv_ev, via the extension relation Ext), hence along every interleaving (sinv_run); micro_return: what poll_next hands out when it returns; c05s_never_panics (the unreachable! of handle_lag too), c05s_delivered_applicable, micro_progress / poll_terminates (every receive operation returns or moves the cursor strictly forward: without new messages a poll_next returns after at most one receive operation per pending message plus one — the drain loop and handle_lag cannot spin); pollRun_atomic (Props/StreamAtomic): the atomic poll of the coarse model, on which the adapter pipelines are proved, IS the fine-grained poll run with nothing in between — same item, same world (lag_run / drain_run: the loops of handle_lag and of the batched stream by induction)", engines=[{"name": "vec"}, {"name": "vstep"}, {"name": "vconc"}]),
        claim=("Lean 4 theorems: stream invariant VInv preserved by every event (vinv_vstep) hence c05_replay_inv at every reachable state: every delivered diff was applicable to the subscriber's replica, and replica + still-owed diffs = current contents; c05_exec_faithful (every call's diff, replayed strictly on the state before, yields the state after; documented no-ops record nothing; exactly one diff otherwise) "
               "plus the receiver-level theorems shared with C06/C08; tied to the code by the vec engine, whose implementation-side oracle replays every delivered diff on a strict replica "
               "and compares it with the vector after every message, for plain and batched streams."),
        technique="Lean 4 proof (reachable-state invariant by induction over event sequences; per-operation refinement) + model/implementation correspondence",
        design_ref="DESIGN.md §6 C05"),
    "C06": dict(vec_prop(["EyeballVerif.Props.C06", "EyeballVerif.Props.StreamReach", "EyeballVerif.Props.StreamStep", "EyeballVerif.Lemmas.StepInv"],
        "c06_lagged_reset_current (at every reachable state a receiver more than a window behind gets exactly Reset(current contents) and is then in sync), c06_pending_synced (Pending only to a receiver whose replica equals the contents); c06_plain_reset / c06_batched_reset: a Reset is handed out only when more than B messages were pending, carries the newest recorded state and consumes the log; "
        "c06_window_ge_capacity: B >= capacity; c06_batched_consumes_all; c06_pending_consumed_all — for every log, window size and cursor. Fine-grained (any interleaving of the writer with the receive operations of a poll_next): c06s_reset_current (a receiver that lagged — also inside the batched drain loop — is handed Reset(contents current when poll_next returns), alone, and is in sync), c06s_pending_synced", engines=[{"name": "vec"}, {"name": "vstep"}, {"name": "vconc"}]),
        claim=("Lean 4 theorems: at every reachable state (any event sequence) a lagged receiver is handed Reset(current contents) and is in sync afterwards (c06_lagged_reset_current), Pending is answered only to a receiver in sync (c06_pending_synced); over every log, window size B, cursor and closed flag: Reset only if more than B >= capacity messages were pending and it carries the newest message's state "
               "(c06_plain_reset, c06_batched_reset, c06_window_ge_capacity); Pending only when nothing is left to deliver (c06_pending_consumed_all); a batched item consumes everything "
               "(c06_batched_consumes_all). Tied to the code by lag scenarios over capacities 1..8 (exhaustive in the number of unpolled updates) and random histories."),
        technique="Lean 4 proof (induction over the drain loops of handle_lag / batched poll) + model/implementation correspondence",
        design_ref="DESIGN.md §6 C06"),
    "C07": dict(vec_prop(["EyeballVerif.Props.C07", "EyeballVerif.Props.StreamStep"],
        "c07_abandon: for every list of transaction events (mutators incl. clear, traversals, rollbacks, panicking calls) dropping the transaction restores the exact pre-state "
        "(contents, log, receivers); c07_inv_run: batch replayed on the pre-state = working copy along every body; c07_commit / c07_commit_replay; under any interleaving with a reader on another thread: c13s_batch_whole_messages (Props/StreamStep) — a batch handed to a batched subscriber is the concatenation of the diffs of consecutive whole messages, and a commit is one message, so no state inside a transaction is observable", engines=[{"name": "vec"}, {"name": "vstep"}]),
        claim=("Lean 4 theorems: abandoning a transaction after any sequence of transaction events leaves contents, channel log and receivers exactly as before (c07_abandon); the transaction "
               "invariant 'recorded batch replayed on the untouched contents = working copy' holds along every body incl. clear and entry traversals (c07_inv_run); commit installs the working "
               "copy, publishes nothing for an empty batch and otherwise exactly one message carrying the whole batch (c07_commit, c07_commit_replay). Tied to the code by exhaustive transaction bodies."),
        technique="Lean 4 proof (invariant by induction over transaction events) + model/implementation correspondence",
        design_ref="DESIGN.md §6 C07"),
    "C08": dict(vec_prop(["EyeballVerif.Props.C08", "EyeballVerif.Props.StreamReach", "EyeballVerif.Props.StreamStep", "EyeballVerif.Lemmas.StepInv"],
        "c08_end_final (at every reachable state a stream ends only after the vector was dropped and with the replica equal to the final contents); c08_no_early_end: for every log/window/receiver state a poll on an open channel never reports the end; c08_end_consumed_all: the end is reported only with the cursor at the end of the log; "
        "c08_lagged_after_drop_gets_final: a lagging receiver of a dropped vector first receives Reset(final state); c08_drop_wakes. Fine-grained: c08s_end_final (any interleaving of the drop with the receive operations: the end is reported only after the drop and on the final contents)", engines=[{"name": "vec"}, {"name": "vstep"}, {"name": "vconc"}]),
        claim=("Lean 4 theorems: at every reachable state the end is reported only after the drop and to a receiver whose replica equals the final contents (c08_end_final); over every log, window and receiver state: no end-of-stream while the sender exists (c08_no_early_end); the end is reported only after everything was delivered "
               "(c08_end_consumed_all); a receiver that lagged when the vector was dropped is first reset to the final state (c08_lagged_after_drop_gets_final — the repaired defect D6); dropping "
               "wakes every parked receiver (c08_drop_wakes). Tied to the code by drop scenarios for every capacity 1..8 x lag depth x flavour."),
        technique="Lean 4 proof (case analysis over receiver outcomes, induction over handle_lag) + model/implementation correspondence",
        design_ref="DESIGN.md §6 C08"),
}

PROPS.update({
    "C09": dict(adp_prop(["EyeballVerif.Props.C09", "EyeballVerif.Props.StageSound", "EyeballVerif.Props.PipeSoundD", "EyeballVerif.Props.PipeSoundUD"],
        "head_handle_diff / tail_handle_diff / skip_handle_diff: for every diff valid on the buffered vector, every limit/count and every vector, the emitted diffs replayed strictly on the old view "
        "(take L / lastN L / drop c) give the new view; head_update_limit / skip_update_count for every (old,new,vector); Tail::update_limit: full statement refuted by a kernel-checked witness "
        "(known finding D2) and proved outside the D2 signature (tail_update_limit_partial); *_initial: the constructors hand out the spec view", engines=[{"name": "adp"}, {"name": "vconc"}]),
        claim=("Lean 4 theorems, one per adapter and quantified over every diff valid on the source, every limit/count and every vector: the diffs emitted by handle_diff (all eleven arms), replayed strictly on "
               "the old view, yield exactly take L / last L / drop c of the new source (head_handle_diff, tail_handle_diff, skip_handle_diff) — which also shows each emitted diff is applicable; the same for every "
               "limit/count change (head_update_limit, skip_update_count); for Tail::update_limit the full statement is refuted in the kernel (known finding D2) and the strongest partial theorem is proved. "
               "Initial values = spec view. Tied to the code by exhaustive small-scope + random differential runs with per-stage oracles; stream end and Pending-quiescence are checked by the oracle on every history."),
        technique="Lean 4 proof (per-arm refinement, list extensionality + grind) + model/implementation correspondence",
        design_ref="DESIGN.md §6 C09"),
    "C10": dict(adp_prop(["EyeballVerif.Props.C10", "EyeballVerif.Props.StageSound"],
        "filter_handle: for every partial mapping f, source, bookkeeping state satisfying FInv and valid diff: FInv is preserved and the emitted diff replayed strictly on filterMap f src gives filterMap f src'; filter_init"),
        claim=("Lean 4 theorem filter_handle: for every partial mapping f (Filter is the instance 'some x if p x'), every source vector and every diff valid on it, if the index bookkeeping is right before "
               "(FInv: original_len = length, filtered_indices = positions of the passing items) it is right afterwards and the emitted diff, replayed strictly on the old filtered view, gives the new filtered view "
               "— all eleven handle_* functions incl. the binary-search-and-shift ones and the repaired Reset arm (D3); filter_init for the constructors. Tied to the code by every pass/fail mask x every operation."),
        technique="Lean 4 proof (index-list invariant, per-arm lemmas over a split of the source) + model/implementation correspondence",
        design_ref="DESIGN.md §6 C10"),
    "C15": dict(adp_prop(["EyeballVerif.Props.C15", "EyeballVerif.Props.C15Container"],
        "head_prefix_bound / tail_prefix_bound: for every valid diff, limit and vector, every intermediate replica while replaying the emitted diffs one by one has at most `limit` items (runBounded), "
        "runBounded_prefix connects it to prefixes of the emitted list; c15_initial"),
        claim=("Lean 4 theorems head_prefix_bound / tail_prefix_bound: for every diff valid on the source, every limit and vector, replaying the emitted diffs one at a time never lets the view exceed the limit "
               "(the order PopBack-before-PushFront, PopFronts-before-Append, PopBacks-before-PushFronts is what the proof uses); c15_initial for the constructors. Tied to the code by the adp engine, whose oracle "
               "checks the bound after each single diff of both stream flavours."),
        technique="Lean 4 proof (bounded-run predicate by case analysis and induction over replicate/map runs) + model/implementation correspondence",
        design_ref="DESIGN.md §6 C15"),
    "C11": dict(adp_prop(["EyeballVerif.Props.C11", "EyeballVerif.Props.C11Sort", "EyeballVerif.Props.StageSound", "EyeballVerif.Props.PipeSoundSort", "EyeballVerif.Props.PipeSoundUS", "EyeballVerif.Lemmas.SortInv", "EyeballVerif.Lemmas.Bsearch"],
        "sort_handle_sound: for every lawful comparator (total preorder), every sort function meeting the sort specification, every source, buffer and valid diff that is not a shortening Truncate: the arm does not "
        "panic, the emitted diffs replayed strictly on the old sorted view give the new one, and the new buffer is a sorted permutation of the position-tagged new source (SInvP; sinvP_sinv: every position exactly once "
        "with its item); sort_run_sound: the same over whole histories from SortImpl::new on (induction); bsearch_spec (imbl's binary_search_by loop, strong induction); appendLoop_spec (the Append arm's loop, induction); "
        "stableSort_spec / lawful_nat (the hypotheses are satisfiable); sort_truncate_counterexample (known finding D4: kernel-checked refutation of the statement for the Truncate arm)"),
        claim=("Lean 4 theorems sort_handle_sound and sort_run_sound: for every total-preorder comparator and every sort function that returns a sorted permutation, every arm of "
               "handle_diff_and_update_buffered_vector except a shortening Truncate keeps 'the buffer is a sorted permutation of the source tagged with positions' and emits diffs that take the old sorted view to the new "
               "one, strictly applicable — over whole histories by induction, including imbl's binary search loop (bsearch_spec) and the Append arm's insertion loop (appendLoop_spec). For the Truncate arm the statement "
               "is REFUTED in the kernel (sort_truncate_counterexample — known finding D4, the arm forwards Truncate to the sorted view; not repairable without changing three pinned tests). Tied to the code by the exhaustive "
               "differential run (every source over an alphabet with ties x 4 comparators x every operation) and the implementation-side sorted-permutation oracle."),
        technique="Lean 4 proof (invariant by induction over histories, one lemma per arm, loop invariants for binary search and the Append loop; kernel-checked counterexample for the known finding) + model/implementation correspondence",
        design_ref="DESIGN.md §6 C11"),
    "C12": dict(adp_prop(["EyeballVerif.Props.C12", "EyeballVerif.Props.ChainSound", "EyeballVerif.Props.PipeSound", "EyeballVerif.Props.PipeSoundSort", "EyeballVerif.Props.PipeSoundU", "EyeballVerif.Props.PipeSoundD", "EyeballVerif.Lemmas.TruncInv", "EyeballVerif.Props.PipeSoundUD", "EyeballVerif.Props.PipeSoundUS"],
        "pipe_poll_sound + pipeInv_initial: for the batched flavour and static chains of Head/Tail/Skip/Filter stages of any depth, the pipeline invariant (vector invariants VInv + TInv, receiver replica defined, ChainInv for that replica) holds from construction at any reachable state and is preserved by every poll of the real poll loop (pollStages), no stage panics, and an item handed out is a valid container taking the composed view before the poll to the composed view after it (Pending/End leave it unchanged); tinv_run: everything owed to a receiver is a valid container (every Truncate shortens); "
        "chain_sound: for every chain of adapters (any kinds, any depth) whose stages satisfy their invariants and every valid container from the source that brings no Truncate to a Sort stage: no stage panics, the invariants hold "
        "afterwards, and the diffs coming out at the top take the old composed view to the new composed view, strictly, and are again a valid container (induction over the chain; stage_onDiffs_sound per stage; "
        "head/skip/filter_truncOK: an emitted Truncate really shortens); mkPipe_chainInv: every chain the constructors build satisfies the chain invariant and its composed view is the initial values handed out; c12_initial_values / c12_initial_chain: for every stage kind, initial contents and chain of any length, the initial values handed on are the composition of the stage views (the repaired D5); "
        "c12_stage_buffers_view_below: every stage starts with the invariant its rewriting theorem needs"),
        claim=("Lean 4 theorems chain_sound + mkPipe_chainInv: stacking adapters composes their views — for chains of any depth built by the constructors, a valid source container pushed through all stages comes out as diffs that "
               "take the old composed view to the new one, each stage's output being a valid input for the next (an emitted Truncate always shortens), by induction over the chain from the per-stage theorems of C09/C10/C11 "
               "(Truncate into a Sort stage excluded: known finding D4). c12_initial_values and c12_initial_chain: for every kind of stage and chains of any length (induction over the chain) the initial values a stage hands to the next one "
               "are its view of the stage below — in particular empty for the purely dynamic Head/Tail/Skip (repaired defect D5) — and every stage starts with the buffer/bookkeeping invariant that the per-stage "
               "refinement theorems of C09/C10 assume. The per-stage theorems compose because each stage's output diffs are strictly applicable to its own view (C09/C10 theorems). Tied to the code by "
               "random chains of up to 3 stages with transparent taps between the stages checked at every quiescent point."),
        technique="Lean 4 proof (induction over the chain, per-stage refinement theorems) + model/implementation correspondence with per-stage taps",
        design_ref="DESIGN.md §6 C12"),
    "C13": dict(adp_prop(["EyeballVerif.Props.C13", "EyeballVerif.Props.C13Flat", "EyeballVerif.Props.PipeSoundU", "EyeballVerif.Lemmas.PipeBasics", "EyeballVerif.Props.StreamStep"],
        "c13_no_empty_batch: for chains of any length, any fuel and world, polling never yields an empty batch given the vector never publishes an empty message (pollStages_item principle, induction over "
        "the poll loop); c13_mapDiffs_append / c13_mapDiffs_acc: the Vec container's flat_map over a batch = handling its diffs one after the other", engines=[{"name": "adp"}, {"name": "vstep"}, {"name": "vconc"}]),
        claim=("Lean 4 theorems: no stage, alone or in a chain of any length, ever emits an empty batch (c13_no_empty_batch, by induction over the poll loop of the generic stage skeleton, using that commits "
               "never publish empty messages); handling a batch in one go produces exactly the concatenation, in order, of handling its diffs one at a time, with the same buffered state "
               "(c13_mapDiffs_append, c13_mapDiffs_acc) — the algebraic core of 'batched = unbatched, concatenated'. Tied to the code by running every exhaustive case in both flavours and comparing the "
               "flattened streams, plus the boundary-state oracle after every emitted batch."),
        technique="Lean 4 proof (induction over the poll loop, algebraic law of the container fold) + model/implementation correspondence in both flavours",
        design_ref="DESIGN.md §6 C13"),
    "C14": dict(adp_prop(["EyeballVerif.Props.C14", "EyeballVerif.Props.C14Pipe", "EyeballVerif.Props.C14Idem"],
        "c14_pipe_pending_registered (for chains of any adapters of any depth, both stream flavours, any fuel: a poll that answers Pending leaves the bottom subscriber parked in the channel and every stage's limit/count stream "
        "either ended or holding the waker — induction over the poll loop); c14_send_wakes / c14_direct_wakes / c14_limit_wakes: each kind of event wakes exactly what is registered; c14_limPoll_registers / c14_sub_pending_parked: a Pending source has registered the waker",
        engines=[{"name": "adp"}, {"name": "vec"}]),
        claim=("Lean 4 theorems: whenever polling a chain of adapters answers Pending, the waker is registered with the channel and with every limit/count stream that can still announce something "
               "(c14_pipe_pending_registered, for all chains, by induction over the generic poll loop); every event that can make progress possible — a published update, the drop of the vector (c08_drop_wakes), a new limit/count value, the end of the limit stream — "
               "wakes exactly the wakers registered with that source (c14_send_wakes, c14_direct_wakes, c14_limit_wakes); a source that answered Pending has registered the waker (c14_sub_pending_parked, "
               "c14_limPoll_registers). Tied to the code by flag wakers checked around every poll and after every single operation for single adapters and chains (adp engine) and for the subscriber streams (vec engine). "
               "tokio's and the limit stream's registration behaviour are assumptions of the model, validated by these runs."),
        technique="Lean 4 proof (pipeline-level registration invariant by induction over the poll loop; wake lemmas per source) + model/implementation correspondence with flag wakers after every operation",
        design_ref="DESIGN.md §6 C14"),
})

OBS_RULE = ("engine obs — exhaustive: every sequence of depth 2 (thorough 3) over a 35-call alphabet and of depth 3 (thorough 4) over a 22-call alphabet "
            "(set / set_if_not_eq equal+different / set_if_hash_not_eq same+different hash / take / update / update_if true+false, direct and through a write guard; "
            "subscribe, subscribe_reset, poll, next_now, get, reset, clone, clone_reset, drop of subscribers; clone, drop, downgrade, upgrade, drop-weak, into_shared, counts), "
            "on a unique Observable and on a SharedObservable, starting with one parked subscriber and ending with polls of every subscriber, drop of every owner, polls again and "
            "upgrades; (T) one task waker shared by several subscribers: every sequence of length 5 (thorough 6) over a 7-call alphabet; random: 2500 (thorough 100000) histories of 10..50 calls; async-lock flavour additionally "
            "3000 (thorough 100000) guard histories with read/write guards held across calls, pending and cancelled futures, next_ref() futures. The element type has PartialEq on v%8 and Hash on v/8 so equal-but-different-hash and "
            "different-but-same-hash values occur. Every case is non-trivial; distinct = distinct traces.")

def obs_prop(mods, expl, engines, extra_tb=(), extra_assump=()):
    return {
        "level": "proof",
        "lean_modules": mods,
        "engines": engines,
        "rule": OBS_RULE,
        "exhaustive": True,
        "trusted_base": [KERNEL, CORR,
                         "std::sync::RwLock / readlock::Shared modelled at operation granularity as mutual exclusion (one call = one atomic step); Arc strong/weak counts exact; Waker::wake only makes the task runnable; "
                         "DefaultHasher gives different hashes for the different small inputs used"] + list(extra_tb),
        "assumptions": ["element type instantiated to a u64 wrapper (Eq on v%8, Hash on v/8) in the correspondence runs; the theorems quantify over every type, equality and hash function",
                        "u64 overflow of the version counter not modelled (2^64 updates)"] + list(extra_assump),
        "explanation": expl,
    }

PROPS.update({
    "C01": dict(obs_prop(["EyeballVerif.Props.C01", "EyeballVerif.Lemmas.ObsInv"],
        "oinv_step / oinv_run: the invariant (observed <= version, observed < version <-> ghost flag 'has something it was not shown', closed <-> no owner, Arc counters = handle counts, parked -> registered) is "
        "preserved by every call; c01_poll_spec: the poll answer is End / Ready(latest) / Pending exactly per the ghost specification in every reachable world; c01_ready_clears, c01_write_marks, "
        "c01_set_if_not_eq, c01_set_if_hash_not_eq, c01_update_if, c01_next_now_marks, c01_get_latest", [{"name": "obs"}, {"name": "conc"}]),
        claim=("Lean 4: the specification 'has something it was not shown' is a ghost flag per subscriber (set by notifying updates, reset, subscribe_reset, clone_reset; copied by clone; cleared by a ready poll, "
               "next_now, subscribe); oinv_run proves by induction over arbitrary call sequences (all 13 kinds of calls, any number of subscribers/clones/weak references) that the code's version-counter "
               "mechanism computes exactly this flag; c01_poll_spec: a poll is End iff closed, else Ready(latest value) iff flagged, else Pending; c01_ready_clears: delivered once; the setters' decision logic "
               "is stated outright (c01_set_if_not_eq, c01_set_if_hash_not_eq, c01_update_if, c01_write_marks). Tied to the code by exhaustive + random differential runs with an independent specification-level oracle."),
        technique="Lean 4 proof (invariant by induction over call sequences, refinement to a ghost-flag specification) + model/implementation correspondence",
        design_ref="DESIGN.md §6 C01"),
    "C19": dict(obs_prop(["EyeballVerif.Props.C19"],
        "c19_counts_exact: in every reachable world the counters computed from the Arc counts equal the numbers of live clones / subscribers / their sum / weak references; Observable::subscriber_count = live subscribers",
        [{"name": "obs"}, {"name": "obsasync"}]),
        claim=("Lean 4 theorem c19_counts_exact (from the invariant oinv_run, which tracks the Arc strong/weak counters through every call): observable_count, subscriber_count, strong_count, weak_count and "
               "Observable::subscriber_count are exact in every reachable world of the default flavour. The async-lock flavour counts two references per subscriber (known finding D8: the model carries the extra "
               "reference and the correspondence confirms the implementation does exactly that; the count oracle for async is evaluated only in the confirmation cases). Tied to the code by reading the counters "
               "after the histories of the obs engine, both flavours."),
        technique="Lean 4 proof (counter invariant by induction over call sequences) + model/implementation correspondence in both lock flavours",
        design_ref="DESIGN.md §6 C19"),
})

CONC_RULE = ("engine conc — real OS threads on one SharedObservable, each executing one call (subscriber poll incl. re-poll, set, get, drop of a clone, upgrade of a weak reference), "
             "driven by a director through the instrumented pause points (eyeball::verif): for 11 programs of 2-3 threads every interleaving of the pause-point segments is enumerated on a "
             "ledger (11..5230 schedules per program; all of them when <= 250 (thorough 4000), otherwise an evenly spread sample selected by the seed), including releases of a thread into a "
             "lock that another thread holds (it must block) and its later arrival; the recorded trace (arrived at which point / blocked / result) is replayed on the Lean lock-level model. "
             "Plus free-running rounds without pause points, threads released from a spin barrier: 600 (thorough 20000) rounds for each of the 11 programs and of 10 more (concurrent last drops, next_now | set, "
             "set_if_not_eq | set_if_not_eq, ...). Oracles at quiescence (also after a forced schedule that could not be followed): a task whose last poll was Pending and whose waker was not woken is polled once more "
             "(lost wakeup), pending subscriber woken once every owner is gone, stream ended iff no owner, set chain, a replaced value differs from the new one, next_now's value and observed version belong together, "
             "no update delivered twice, subscribers end on the final value. Every case is non-trivial; distinct = distinct traces.")
LOCKS = ("std::sync::RwLock = many-readers/one-writer mutual exclusion (new readers may wait behind a queued writer: such schedules are not generated), Arc counts exact and atomic, "
         "Arc::into_inner returns Some for exactly one of the racing last owners; real hardware memory ordering below the lock API is outside the model (sequentially consistent at segment granularity)")

PROPS.update({
    "C02": dict(obs_prop(["EyeballVerif.Props.C02", "EyeballVerif.Props.C02Conc", "EyeballVerif.Lemmas.ConcInv", "EyeballVerif.Lemmas.ConcRun"],
        "operation granularity: c02_parked_registered, c02_pending_nothing_missed, c02_next_write_wakes, c02_close_wakes over every reachable world (OInv); thread granularity: winv_adv — the lock-discipline / registration / "
        "clone-accounting invariant WInv is preserved by every segment of every thread (poll, set, set_if_not_eq, update, next_now, get, drop, upgrade), for any number of threads — and c02_conc_no_lost_wakeup, c02_conc_notify_wakes, c02_conc_close_wakes, c02_conc_version_change_wakes (whichever call changes the version empties the waker list and has woken everybody registered)",
        [{"name": "obs"}, {"name": "conc"}], extra_tb=[LOCKS]),
        claim=("Lean 4, two layers. (a) Operation granularity: in every world reachable by any call sequence, a subscriber whose poll answered Pending is registered, nothing it has not observed exists, and the next "
               "notifying write through any owner and the drop of the last owner wake it — every parked subscriber, not one (c02_parked_registered, c02_next_write_wakes, c02_close_wakes). (b) Thread granularity: a lock-level "
               "model with any number of threads advancing segment by segment (segments = code between the instrumented pause points; a step is enabled only if its lock is free); winv_adv proves the invariant for "
               "every step, hence for every interleaving; c02_conc_no_lost_wakeup: a task told Pending and not woken is registered, the observable is open and it has observed the current version. "
               "Tied to the code by the obs engine and by forced schedules of real threads replayed on the model (conc engine); that std's locks exclude and that the critical sections are where the model puts "
               "them is validated by those schedules (sampling), not proved."),
        technique="Lean 4 proof (inductive invariant over all interleavings of a lock-level model) + forced-schedule correspondence on real threads",
        design_ref="DESIGN.md §6 C02"),
    "C03": dict(obs_prop(["EyeballVerif.Props.C03", "EyeballVerif.Props.C03Conc"],
        "c03_closed_iff_no_owner, c03_end_iff, c03_after_end, c03_upgrade_iff, c03_into_shared_keeps_open over every reachable world; c03_conc_closed_iff / c03_conc_open_while_owned for every schedule of the "
        "lock-level model (repaired drop protocol); c03_conc_racy_counterexample: kernel-checked refutation for the original protocol (D7)",
        [{"name": "obs"}, {"name": "conc"}], extra_tb=[LOCKS]),
        claim=("Lean 4: closed iff no owner in every world reachable by clone / drop / downgrade / upgrade / into_shared / subscribe / set / poll (c03_closed_iff_no_owner), a poll answers End exactly then and keeps doing so "
               "while get returns the last value (c03_end_iff, c03_after_end), upgrade succeeds exactly while an owner exists (c03_upgrade_iff); across threads: for every schedule of the lock-level model with the repaired "
               "drop protocol, closed iff the clone counter is zero whenever nobody is mid-close (c03_conc_closed_iff), and the original protocol is refuted in the kernel by the two-clones schedule "
               "(c03_conc_racy_counterexample = defect D7, found by this check on the real code and repaired). Tied to the code by the obs engine and by forced schedules at the pause points between the "
               "'am I last?' decision and the release, and inside upgrade."),
        technique="Lean 4 proof (invariants over call sequences and over all interleavings; kernel-checked counterexample for the pre-repair protocol) + forced-schedule correspondence",
        design_ref="DESIGN.md §6 C03"),
    "C16": dict(obs_prop(["EyeballVerif.Props.C16", "EyeballVerif.Props.C16Run"],
        "c16_guard_free_run (Props/C16Run): for EVERY history of calls each awaited to completion (writes of every kind through any owner, subscriber polls, next_now), the async flavour never waits, returns the default flavour's results call by call (values, previous values, who is woken, Ready / Pending / end) and ends in the default flavour's state with the lock free — induction over the history from gcall_async_eq_sync; c16_free_acquires / c16_write_same_as_sync: with the lock free every call completes on its first poll with exactly the default flavour's effect; c16_release_wakes_head / c16_release_partial: "
        "who is woken by a release (FIFO); c16_acquire_fair / c16_release_fair: nobody overtakes a waiter; c16_granted_sub_polls_like_sync: a subscriber that got the lock answers what the default flavour answers",
        [{"name": "obsasync"}], extra_tb=["tokio::sync::RwLock modelled as a FIFO permit semaphore (read = 1 permit, write = all permits; released permits go to queued waiters first, a waiter is woken when it has all its permits), read from tokio 1.53.1"]),
        claim=("Lean 4: the async-lock flavour is run against the same operation-level model as the default flavour, so the theorems of C01-C03 (oinv_run, c01_poll_spec, c02_*, c03_*) are the statement of its "
               "value / notification / wakeup / end-of-stream rules; what is specific to the flavour — futures that may have to wait for the tokio RwLock — is modelled by a FIFO permit semaphore with "
               "theorems c16_* about waking queued waiters on release. Tied to the code by the exhaustive obs histories replayed on new_async objects with every future polled by a hand-rolled executor "
               "(first poll must be Ready when no guard is held) and by histories holding read/write guards across other calls."),
        technique="Lean 4 proof (shared model + semaphore lemmas) + model/implementation correspondence on the async flavour",
        design_ref="DESIGN.md §6 C16"),
    "C20": dict(obs_prop(["EyeballVerif.Props.C20", "EyeballVerif.Props.C20Box"],
        "c20_ledger_step / c20_ledger_run: after any sequence of calls every instance ever created (construction or clone) is in exactly one of {held by the library, handed to the caller, destroyed by the library}, "
        "exactly once; c20_held_one: the library holds exactly one instance until the state is destroyed, none afterwards; c20_all_accounted. Props/C20Box — the reusable boxed future (reusable_box.rs, the crate's hand-written unsafe in-place replacement): c20_box_run (every history of set / poll / drop over any layouts and destructors that may panic: every future handed in is stored, dropped or leaked exactly once; one allocation exactly while a future is stored), c20_box_uniform + c20_box_all_dropped (the crate's use — one future type, quiet destructors: nothing is ever leaked, no set allocates, after the drop everything has been dropped exactly once), c20_box_realloc_iff (set allocates iff the layouts differ); the one leak of the general case is exhibited in the kernel",
        [{"name": "own"}, {"name": "rbox"}, {"name": "own@miri", "tier": "thorough"}], extra_tb=["memory safety of the three unsafe blocks (reuse_pin_box layout equality, ptr::read + forget in into_shared, unreachable_unchecked) is outside any executable model: validated by the "
                                     "instrumented runs (double drops / leaks would show) and, in the thorough tier, by Miri — not proved"]),
        claim=("PARTIAL. Lean 4 theorems about the ownership ledger of the eyeball crate: each call moves instances between 'held by the library', 'handed to the caller' and 'destroyed'; for every call sequence "
               "the three sets partition all instances ever created, each exactly once (c20_ledger_run — no double drop, no leak, no drop while held), and the library holds exactly the current value until the "
               "last strong handle is gone (c20_held_one). Tied to the code by an instrumented element type (fresh id per construction/clone, drop registry with double-drop detection) whose library-held id set "
               "is compared with the model after every call, both lock flavours. For the vector crates and adapters (imbl shares and copies chunks internally) only the invariants are checked on the "
               "implementation: no double drop, and nothing alive once vector, subscribers, adapters and diffs are gone. The reusable boxed future is modelled step by step (Model/RBox: layout check, drop in place, the CallOnDrop guard, unwinding) with the ownership theorems of Props/C20Box, and driven directly through a verification hook with futures of three layouts and panicking destructors (engine rbox). The memory safety of the unsafe blocks themselves is not a theorem."),
        technique="Lean 4 proof (partition invariant of an ownership ledger) + instrumented differential runs (exact for eyeball, invariants for the vector crates)",
        design_ref="DESIGN.md §6 C20"),
    "C04": dict(obs_prop(["EyeballVerif.Props.C04", "EyeballVerif.Props.C04Lin"],
        "c04_mutual_exclusion (guards exclude, from WInv, every reachable state), c04_value_frame (only the store segment of set / a set_if_not_eq that differs / update changes the value, to exactly the value that call writes), "
        "c04_store_records_prev (set and set_if_not_eq record the replaced value; an equal set_if_not_eq changes nothing and returns None), c04_set_chain (along every run the "
        "stores form a chain from the initial to the final value), c04_reads_current, c04_next_now_current, c04_observed_monotone; "
        "c04_lin_step / c04_lin_run (linearizability stated outright: the atomic one-cell specification AS.apply run on the calls in the order of their linearization points "
        "ends in the abstraction of the concrete final state, in what every subscriber has observed, and gives every call the result it returns — every schedule, any number of threads)",
        [{"name": "conc"}, {"name": "obs"}], extra_tb=[LOCKS]),
        claim=("Lean 4 theorems about the lock-level model, for every number of threads and every schedule: while a writer is in its critical section nobody holds the read lock and nobody else writes, and vice versa "
               "(c04_mutual_exclusion); only the segment in which a set, a set_if_not_eq whose value differs, or an update takes the write lock changes the value — to the argument, resp. the closure applied to the current value, so no "
               "update is lost — and set / set_if_not_eq record the value they replaced as the call's result, an equal set_if_not_eq changes nothing (c04_value_frame, c04_store_records_prev); hence along every run the "
               "stores are totally ordered and chained — returned previous values + final value = initial value + written values (c04_set_chain); get, next_now and the subscriber check read the current value, next_now "
               "marking exactly the current version observed (c04_reads_current, c04_next_now_current); observed versions never go backwards while the observable is open (c04_observed_monotone). Linearizability is stated outright in Props/C04Lin: an atomic specification of the cell (value, version) with set / set_if_not_eq / update / get / next_now / poll / close as single transitions, an abstraction "
               "function (a writer that has replaced the value but not yet bumped the version counts as bumped), one linearization point per call lying among the call's own segments, the one-step simulation c04_lin_step and its "
               "lift c04_lin_run to every schedule from every state satisfying the invariant: specification run in linearization order = abstraction of the final state, observed versions and results included. "
               "Tied to the code by forced schedules (a thread released into a held lock must block; results must equal the model's) and free-running rounds with the set-chain oracle; partial: the atomicity of "
               "a segment on real hardware is the lock's guarantee, validated, not proved."),
        technique="Lean 4 proof (mutual-exclusion invariant, frame and chain lemmas, linearizability by forward simulation to an atomic cell specification, over all interleavings) + forced-schedule correspondence on real threads",
        design_ref="DESIGN.md §6 C04"),
})

ENGINES = [
    {"name": "diff", "path": "harness/src/eng_diff.rs", "serves_properties": ["C18"],
     "kind_free_text": "differential correspondence (real VectorDiff vs Lean model) + implementation-side oracle"},
    {"name": "vec", "path": "harness/src/eng_vec.rs", "serves_properties": ["C05", "C06", "C07", "C08", "C17"],
     "kind_free_text": "differential correspondence (real ObservableVector/subscriber streams vs Lean model OV) + implementation-side oracles (strict replica, plain-vector reference, pending-message ledger, wake flags)"},
    {"name": "vstep", "path": "harness/src/eng_vstep.rs", "serves_properties": ["C05", "C06", "C07", "C08", "C13"],
     "kind_free_text": "differential correspondence at the granularity of single receive operations: the verification hook eyeball_im::verif::set_recv_hook is called after every recv()/try_recv() of a poll_next, the harness performs updates, whole transactions and the drop of the vector from inside it (the interleavings a writer on another thread produces, but deterministic and recorded), the Lean model SOV.micro replays them step by step; + implementation-side oracles (strict applicability, Reset = contents at the last receive operation, Pending only in sync, End only after the drop on the final contents, wake rule)"},
    {"name": "vconc", "path": "harness/src/eng_vconc.rs", "serves_properties": ["C05", "C06", "C08", "C09", "C13"],
     "kind_free_text": "writer on its own thread against plain and batched subscriber streams and a batched skip(1) adapter polled on three other threads (a poll is no longer atomic w.r.t. updates: the Lagged arms inside the drain loops); implementation-side oracles only (strict applicability, replica = final contents, End iff dropped) — the interleaving is not recorded, so there is no model trace"},
    {"name": "adp", "path": "harness/src/eng_adp.rs", "serves_properties": ["C09", "C10", "C11", "C12", "C13", "C14", "C15"],
     "kind_free_text": "differential correspondence (real adapter pipelines vs Lean model Pipe) + implementation-side oracles on transparent taps between the stages"},
    {"name": "obs", "path": "harness/src/eng_obs.rs", "serves_properties": ["C01", "C02", "C03", "C04", "C19"],
     "kind_free_text": "differential correspondence (real Observable/SharedObservable/Subscriber, default lock flavour, vs Lean model OWorld) + specification-level oracle"},
    {"name": "conc", "path": "harness/src/eng_conc.rs", "serves_properties": ["C01", "C02", "C03", "C04"],
     "kind_free_text": "real threads driven through every pause-point interleaving by a director (forced schedules) + free-running rounds; traces replayed on the Lean lock-level model"},
    {"name": "own", "path": "harness/src/eng_own.rs", "serves_properties": ["C20"],
     "kind_free_text": "instrumented element type (ids, drop registry) through observable histories (library-held ids compared with the Lean ledger after every call) and vector/adapter histories (invariants)"},
    {"name": "rbox", "path": "harness/src/eng_rbox.rs", "serves_properties": ["C20"],
     "kind_free_text": "differential correspondence (the crate's private ReusableBoxFuture, reached through the hook eyeball_im::verif::RBox, vs Lean model RB) with instrumented futures of three layouts and destructors that may panic, a counting global allocator; + implementation-side oracles (no double drop, stored = last set, set allocates iff layouts differ)"},
    {"name": "obsasync", "path": "harness/src/eng_obs.rs", "serves_properties": ["C16", "C19"],
     "kind_free_text": "the same histories on the async-lock flavour, every future polled once by a hand-rolled executor, against the same Lean model"},
]

PROPS["C20"]["rule"] = ("engine rbox — exhaustive: every sequence of 3 (thorough 4) sets over 3 layouts x {quiet, panicking destructor} from each initial future, each followed by a poll (497 cases); random: 1500 (thorough 40000) histories of up to 30 operations, half of them uniform (one layout, quiet destructors: the crate's own use). engine own — 1500 (thorough 80000) random histories of 5..45 calls on Observable / SharedObservable in both lock flavours with an instrumented element type "
    "(set, set_if_not_eq equal/different, set_if_hash_not_eq, take, update, get, subscribe, poll, next_now, clone/drop of subscribers and owners, into_shared), the set of ids held by the "
    "library compared with the Lean ledger after every call; 800 (thorough 40000) random histories on an ObservableVector with plain and batched subscribers, a head-filter-sort chain and a tail, "
    "transactions, entries, lag-inducing capacities, kept and mapped diffs, with the no-double-drop / nothing-left-alive check at the end. Every case is non-trivial; distinct = distinct traces.")
PROPS["C20"]["exhaustive"] = False
