"""Per-property specification used by ./check: theorem modules, engines, evidence texts."""

KERNEL = "Lean 4.33.0 kernel (thorough tier: re-checked by leanchecker); axioms allowed: propext, Classical.choice, Quot.sound — audited per theorem with #print axioms on every run"
CORR = ("correspondence check (differential): harness generators/printers (Rust, /verif/harness), Lean driver parser "
        "(/verif/lean/Main.lean, EyeballVerif/Driver), line diff in ./check; validates the hand-written model only on the inputs it runs")
IMBL = "imbl::Vector modelled as a mathematical sequence (List) with the API semantics read from imbl 5.0.0 (pop on empty = no-op, truncate beyond length = no-op, insert/set/remove panic out of range)"

PROPS = {
    "C18": {
        "level": "proof",
        "lean_modules": ["EyeballVerif.Props.C18"],
        "engines": [{"name": "diff"}],
        "rule": ("exhaustive: every vector of length <= 4 (thorough 5) over {1,2} x every diff kind with every index 0..len+2 and "
                 "payloads of length 0..3, each also under 4 element mappings; random: vectors of length 50..150 (beyond imbl's 64-element chunks). "
                 "A case is non-trivial when apply does not panic; distinct = distinct (ops, results) traces."),
        "exhaustive": True,
        "trusted_base": [KERNEL, CORR, IMBL],
        "assumptions": ["element type instantiated to u64 / Nat in the correspondence runs (the theorems are polymorphic)",
                        "mappings drawn from a table of 4 functions in the correspondence runs (the theorem quantifies over all functions)"],
        "explanation": "theorems c18_* are universally quantified over diffs, vectors and mappings; the correspondence run ties Diff.apply/Diff.map to VectorDiff::apply/map",
    },
}
