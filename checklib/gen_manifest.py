#!/usr/bin/env python3
"""Regenerates /verif/MANIFEST.json from checklib/props.py (keeps not_applicable current)."""
import json, os, sys
ROOT = os.path.dirname(os.path.dirname(os.path.abspath(__file__)))
sys.path.insert(0, ROOT)
from checklib.props import PROPS, ENGINES

NOTE = ("Trusted: Lean kernel (+ propext, Classical.choice, Quot.sound); the correspondence harness/driver/line diff (differential testing of the "
        "hand-written model against the real crates on every run); the library models named in the evidence file's trusted_base.")
m = {
    "version": 1,
    "setup_cmd": "./setup.sh",
    "hooks": {"guard": "--cfg eyeball_verif",
              "enable": "rustflags = [\"--cfg\", \"eyeball_verif\"] in /verif/harness/.cargo/config.toml; the harness builds the three crates as path dependencies from /repo's working tree",
              "baseline_off_cmd": "cd /repo && cargo test --workspace --no-fail-fast --offline",
              "source_commits": json.load(open(os.path.join(ROOT, "checklib", "hook_commits.json"))) if os.path.exists(os.path.join(ROOT, "checklib", "hook_commits.json")) else [],
              "add_only": True},
    "engines": ENGINES,
    "checks": [],
    "notes": ("Technique: machine-checked proof in Lean 4 (theorems over a hand-written executable model, /verif/lean) + differential correspondence check "
              "model/implementation on every run (/verif/harness, ./check). See DESIGN.md."),
    "not_applicable": [],
}
for pid in sorted(PROPS):
    p = PROPS[pid]
    m["checks"].append({
        "property_id": pid,
        "quick_cmd": f"./check {pid} --tier quick",
        "thorough_cmd": f"./check {pid} --tier thorough",
        "evidence_file": f"/verif/evidence/{pid}.json",
        "replay_cmd_template": f"./check {pid} --replay {{path}}",
        "engine": ",".join(e["name"] for e in p["engines"]),
        "level_claimed": {"category": p["level"], "text": p["claim"], "design_ref": p["design_ref"]},
        "level_note": p.get("level_note", NOTE),
        "technique": p["technique"],
    })
for i in range(1, 21):
    pid = f"C{i:02d}"
    if pid not in PROPS:
        m["not_applicable"].append({"property_id": pid, "reason": "not yet built in this snapshot (work in progress: DESIGN.md §6 describes the planned model, theorems and engine; it will be claimed once they exist)"})
json.dump(m, open(os.path.join(ROOT, "MANIFEST.json"), "w"), indent=1)
print("MANIFEST.json:", len(m["checks"]), "checks,", len(m["not_applicable"]), "not applicable")
