#!/bin/sh
# MANIFEST.setup_cmd — build the framework from files on disk only (offline).
set -e
cd "$(dirname "$0")"
export CARGO_NET_OFFLINE=true
(cd lean && lake build EyeballVerif evdriver)
(cd harness && cargo build --offline --quiet)
mkdir -p evidence replays work
echo "setup ok"
